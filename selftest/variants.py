# Mutation variants for the checker self-test. Each edit must keep /repo compiling.
# expect: 'fire' (default) = the property's check must report a violation naming rule;
#         'silent' = behaviour-preserving refactoring, the check must stay quiet.
VARIANTS = []
def V(id, prop, file, old, new, rule="", expect="fire", more=None):
    edits=[{"file":file,"old":old,"new":new}]+(more or [])
    VARIANTS.append({"id":id,"prop":prop,"rule":rule,"expect":expect,"edits":edits})

CS="pkg/services/control/server/"
V("C32-drop-validation-flushcache","C32",CS+"flush_cache.go","err := s.isValidRequest(req)","var err error",rule="C32.R1")
V("C32-effect-before-validation","C32",CS+"evacuate.go","""	err := s.isValidRequest(req)
	if err != nil {
		return nil, status.Error(codes.PermissionDenied, err.Error())
	}

	// check availability
	err = s.ready()
	if err != nil {
		return nil, err
	}
""","""	// check availability
	err := s.ready()
	if err != nil {
		return nil, err
	}

	err = s.isValidRequest(req)
	if err != nil {
		return nil, status.Error(codes.PermissionDenied, err.Error())
	}
""",rule="C32.R1")
V("C32-verify-result-ignored","C32",CS+"sign.go","""	if !sig.Verify(binBody) {
		// TODO(@cthulhu-rider): #1387 use "const" error
		return errors.New("invalid signature")
	}
""","""	_ = sig.Verify(binBody)
""",rule="C32.R2")
V("C32-ir-allowed-inverted","C32","pkg/services/control/ir/server/sign.go","""	if !allowed {
		return errDisallowedKey
	}""","""	if !allowed && len(s.allowedKeys) > 0 {
		return errDisallowedKey
	}""",rule="C32.R2")
V("C32-silent-refactor","C32",CS+"flush_cache.go","""	err := s.isValidRequest(req)
	if err != nil {
		return nil, status.Error(codes.PermissionDenied, err.Error())
	}
""","""	var err error
	if err = s.isValidRequest(req); err == nil {
	} else {
		return nil, status.Error(codes.PermissionDenied, err.Error())
	}
""",expect="silent")

OS="pkg/services/object/server.go"
V("C29-getrange-no-eacl","C29",OS,"""	err = s.aclChecker.CheckEACL(ctx, req, cnrID, objID, reqInfo)
	if err != nil && !errors.Is(err, aclsvc.ErrNotMatched) { // Not matched -> follow basic ACL.
		err = eACLErr(reqInfo, err) // needed for defer
		return s.sendStatusRangeResponse(gStream, err, req)
	}
""","""	err = s.aclChecker.CheckEACL(ctx, req, cnrID, objID, reqInfo)
	if err != nil && !errors.Is(err, aclsvc.ErrNotMatched) { // Not matched -> follow basic ACL.
		err = eACLErr(reqInfo, err) // needed for defer
	}
""",rule="C29.R1")
V("C29-delete-basic-acl-or","C29",OS,"""	if !s.aclChecker.CheckBasicACL(reqInfo) {
		err = basicACLErr(reqInfo) // needed for defer
		return s.makeStatusDeleteResponse(err, req), nil
	}""","""	if !s.aclChecker.CheckBasicACL(reqInfo) && reqMD.tokens.Bearer == nil {
		err = basicACLErr(reqInfo) // needed for defer
		return s.makeStatusDeleteResponse(err, req), nil
	}""",rule="C29.R1")
V("C29-put-sticky-dropped","C29",OS,"if !s.aclChecker.CheckBasicACL(reqInfo) || !s.aclChecker.StickyBitCheck(reqInfo, objOwner) {","if _ = objOwner; !s.aclChecker.CheckBasicACL(reqInfo) {",rule="C29.R1")
V("C29-put-skip-any-error","C29",OS,"if !errors.Is(err, aclsvc.ErrSkipRequest) {","if !errors.Is(err, aclsvc.ErrSkipRequest) && errors.Is(err, apistatus.Error) {",rule="C29.R1")
V("C29-search-verify-wrong-order","C29",OS,"""	respBody, err := s.processSearchRequest(ctx, req, cnrID)

	var respBufErr""","""	respBody, err := s.processSearchRequest(ctx, req, cnrID)
	if false {
		_ = reqInfo
	}

	var respBufErr""",expect="silent")
V("C45-head-maintenance-after","C45",OS,"""	if s.fsChain.LocalNodeUnderMaintenance() {
		return s.makeStatusHeadResponse(req, apistatus.ErrNodeUnderMaintenance, needSignResp)
	}
""","""	if s.fsChain.LocalNodeUnderMaintenance() && req.Body == nil {
		return s.makeStatusHeadResponse(req, apistatus.ErrNodeUnderMaintenance, needSignResp)
	}
""",rule="C45.R1")
V("C45-put-chunk-before-maintenance","C45",OS,"""		if s.fsChain.LocalNodeUnderMaintenance() {
			return s.sendStatusPutResponse(gStream, apistatus.ErrNodeUnderMaintenance, reqFirst)
		}
""","""		if reqFirst == req && s.fsChain.LocalNodeUnderMaintenance() {
			return s.sendStatusPutResponse(gStream, apistatus.ErrNodeUnderMaintenance, reqFirst)
		}
""",rule="C45.R1")

V("C31-client-check-dropped","C31",OS,"""	} else if !clientInCnr {
		return &protoobject.ReplicateResponse{Status: &protostatus.Status{
			Code: codeAccessDenied, Message: "client does not match the object's storage policy",
		}}, nil
	}""","""	} else if !clientInCnr && !serverInCnr {
		return &protoobject.ReplicateResponse{Status: &protostatus.Status{
			Code: codeAccessDenied, Message: "client does not match the object's storage policy",
		}}, nil
	}""",rule="C31.R1")
V("C31-client-flag-from-own-key","C31",OS,"clientInCnr = bytes.Equal(pubKey, req.Signature.Key)","clientInCnr = bytes.Equal(pubKey, req.Signature.Key) || s.fsChain.IsOwnPublicKey(req.Signature.Key)",rule="C31.R3")
V("C31-verify-other-bytes","C31",OS,"if !pubKey.Verify(req.Object.ObjectId.Value, req.Signature.Sign) {","if !pubKey.Verify(req.Object.ObjectId.Value, req.Signature.Sign) && len(req.Signature.Sign) != 64 {",rule="C31.R1")
V("C33-exempt-without-ttl","C33","internal/crypto/requests.go","if meta == nil || meta.GetTtl() != 1 {","if meta == nil {",rule="C33.R1")
V("C33-n3-ignores-result","C33","internal/crypto/requests.go","""	err := neofscrypto.VerifyRequestWithBufferN3(req, nil, verifyN3)
	if err != nil {""","""	err := neofscrypto.VerifyRequestWithBufferN3(req, nil, verifyN3)
	if err != nil && verifyN3 == nil {""",rule="C33.R2")
V("C33-container-list-unverified","C33","pkg/services/container/server.go","""func (s *Server) List(_ context.Context, req *protocontainer.ListRequest) (*protocontainer.ListResponse, error) {
	if err := icrypto.VerifyRequestSignatures(req); err != nil {""","""func (s *Server) List(_ context.Context, req *protocontainer.ListRequest) (*protocontainer.ListResponse, error) {
	if err := icrypto.VerifyRequestSignatures(req); err != nil && req.GetBody().GetOwnerId() == nil {""",rule="C33.R3")
V("C33-setattr-verifies-other-sig","C33","pkg/services/container/server.go","if err := neofscrypto.VerifyMessageSignature(req.Body, req.BodySignature, nil); err != nil {\n\t\tvar e apistatus.SignatureVerification\n\t\te.SetMessage(\"invalid request signature: \" + err.Error())\n\t\treturn s.makeSetAttributeResponse(e)","if err := neofscrypto.VerifyMessageSignature(req.Body.Parameters, req.BodySignature, nil); err != nil {\n\t\tvar e apistatus.SignatureVerification\n\t\te.SetMessage(\"invalid request signature: \" + err.Error())\n\t\treturn s.makeSetAttributeResponse(e)",rule="C33.R3")

SH="pkg/local_object_storage/shard/"
V("C46-revert-fix-raw-read","C46",SH+"restore.go","_, err = io.ReadFull(r, data)","_, err = r.Read(data)",rule="C46.R1")
V("C46-count-on-any-put-error","C46",SH+"restore.go","if err != nil && !IsErrObjectExpired(err) && !errors.Is(err, apistatus.ErrObjectAlreadyRemoved) {","if err != nil && !IsErrObjectExpired(err) && !errors.Is(err, apistatus.ErrObjectAlreadyRemoved) && !ignoreErrors {",rule="C46.R3")
V("C46-length-big-endian","C46",SH+"restore.go","sz := binary.LittleEndian.Uint32(size[:])","sz := binary.BigEndian.Uint32(size[:])",rule="C46.R2")
V("C47-revert-fix-wrap","C47",SH+"gc.go","if ne.epoch >= uint64(unpaidSince) && ne.epoch-uint64(unpaidSince) >= maxUnpaidEpochDelay {","if ne.epoch-uint64(unpaidSince) >= maxUnpaidEpochDelay {",rule="C47.R2")
V("C47-payment-error-falls-through","C47",SH+"gc.go","""			l.Warn("cannot check payment status for container", zap.Stringer("cID", cID), zap.Error(err))
			continue""","""			l.Warn("cannot check payment status for container", zap.Stringer("cID", cID), zap.Error(err))""",rule="C47.R1")
V("C47-grace-two-epochs","C47",SH+"gc.go","const maxUnpaidEpochDelay = 3","const maxUnpaidEpochDelay = 2",rule="C47.R1")
V("C47-engine-any-error","C47","pkg/local_object_storage/engine/container.go","if _, err = e.containerSource.Get(cnrStored); errors.As(err, new(apistatus.ContainerNotFound)) {","if _, err = e.containerSource.Get(cnrStored); err != nil && !errors.As(err, new(apistatus.ServerInternal)) {",rule="C47.R3")
V("C47-policer-any-error","C47","pkg/services/policer/check.go","		if containercore.IsErrNotFound(err) {\n			err = p.deleteLocalObject(ctx, addrWithAttrs.Address, isEC)","		if containercore.IsErrNotFound(err) || errors.Is(err, context.Canceled) {\n			err = p.deleteLocalObject(ctx, addrWithAttrs.Address, isEC)",rule="C47.R3")
V("C47-iserrnotfound-widened","C47","pkg/core/container/storage.go","	return errors.As(err, new(apistatus.ContainerNotFound))","	return errors.As(err, new(apistatus.ContainerNotFound)) || errors.As(err, new(apistatus.ServerInternal))",rule="C47.R4")
V("C47-silent-order-test-first","C47",SH+"gc.go","""		if ne.epoch >= uint64(unpaidSince) && ne.epoch-uint64(unpaidSince) >= maxUnpaidEpochDelay {""","""		if uint64(unpaidSince) > ne.epoch {
			continue
		}
		if delay := ne.epoch - uint64(unpaidSince); delay >= maxUnpaidEpochDelay {""",expect="silent")

TM="pkg/timers/timer.go"
V("C40-delta-done-not-set","C40",TM,"			dh.tick()\n			dh.done = true","			dh.tick()",rule="C40.R2")
V("C40-epoch-no-due-test","C40",TM,"	if et.nextTickAt <= curr {\n		for _, h := range et.eHandlers {","	if et.nextTickAt <= curr || len(et.deltaHandlers) == 0 {\n		for _, h := range et.eHandlers {",rule="C40.R1")
V("C40-update-clears-done","C40",TM,"	if et.done {\n		return\n	}","	if et.done {\n		et.done = curr < et.nextTickAt\n		return\n	}",rule="C40.R3")
V("C40-early-return-after-epoch","C40",TM,"		et.done = true\n	}\n	for _, dh := range et.deltaHandlers {","		et.done = true\n		return\n	}\n	for _, dh := range et.deltaHandlers {",rule="C40.R5")
V("C40-silent-refactor","C40",TM,"		if !dh.done && dh.nextTickAt <= curr {\n			dh.tick()\n			dh.done = true\n		}","		if dh.done || dh.nextTickAt > curr {\n			continue\n		}\n		dh.tick()\n		dh.done = true",expect="silent")

MB="pkg/local_object_storage/metabase/"
V("C07-tombstone-skips-lock-check-for-children","C07",MB+"put.go","""		if objectLocked(currEpoch, metaCursor, target) {
			return apistatus.ErrObjectLocked
		}
""","""		if targetTypErr == nil && objectLocked(currEpoch, metaCursor, target) {
			return apistatus.ErrObjectLocked
		}
""",rule="C07.R1")
V("C07-lock-of-tombstoned-accepted","C07",MB+"put.go","""		if st == statusTombstoned || st == statusExpired && inGarbage(metaCursor, target) == statusTombstoned {
			return logicerr.Wrap(apistatus.ErrObjectAlreadyRemoved)
		}
""","""		if (st == statusTombstoned || st == statusExpired && inGarbage(metaCursor, target) == statusTombstoned) && targetTypErr == nil {
			return logicerr.Wrap(apistatus.ErrObjectAlreadyRemoved)
		}
""",rule="C07.R1")
V("C07-lock-target-tombstonable","C07",MB+"put.go","			if targetTyp == object.TypeLock {\n				return ErrLockObjectRemoval\n			}","			if targetTyp == object.TypeLock && currEpoch == 0 {\n				return ErrLockObjectRemoval\n			}",rule="C07.R1")
V("C07-status-garbage-ignores-lock","C07",MB+"exists.go","	if garbageStatus != statusAvailable && objectLocked(currEpoch, metaCursor, oID) {","	if garbageStatus == statusTombstoned && objectLocked(currEpoch, metaCursor, oID) {",rule="C07.R2")
V("C07-iterate-expired-yields-locked","C07",MB+"iterators.go","			if objectLocked(curEpoch, curForLocked, id) {\n				expKey, _ = cur.Next()\n				continue\n			}","			if objectLocked(curEpoch, curForLocked, id) && expEpoch+1 == curEpoch {\n				expKey, _ = cur.Next()\n				continue\n			}",rule="C07.R2")
V("C07-removed-lock-still-counts","C07",MB+"lock.go","		if inGarbage(cur, lockID) == statusAvailable {","		if inGarbage(cur, lockID) != statusTombstoned {",rule="C07.R5")
V("C07-expired-lock-ends-search","C07",MB+"lock.go","		if currEpoch > 0 && isExpired(cur, lockID, currEpoch) {\n			continue\n		}","		if currEpoch > 0 && isExpired(cur, lockID, currEpoch) {\n			break\n		}",rule="C07.R5")
V("C07-generic-lookup-dead-expiry-branch","C07",MB+"lock.go","			if currEpoch > 0 && isExpired(cur, associateID, currEpoch) {\n				continue\n			}","			if currEpoch > 0 && isExpired(cur, associateID, currEpoch) {\n				break\n			}",expect="silent")
V("C07-lock-of-other-type-counts","C07",MB+"lock.go","		if !isObjectType(cur, lockID, object.TypeLock) {\n			continue\n		}\n","",rule="C07.R5")
V("C07-revert-fix-first-lock-only","C07",MB+"lock.go","""	for lockID := range iterAttrVal(metaCursor, object.AttributeAssociatedObject, idObj[:]) {
		var cur = metaCursor.Bucket().Cursor()

		if !isObjectType(cur, lockID, object.TypeLock) {
			continue
		}
		if currEpoch > 0 && isExpired(cur, lockID, currEpoch) {
			continue
		}
		if inGarbage(cur, lockID) == statusAvailable {
			return true
		}
	}

	return false
}""","""	locked, lockID := associatedWithTypedObject(currEpoch, metaCursor, idObj, object.TypeLock)
	if !locked {
		return false
	}
	return inGarbage(metaCursor, lockID) == statusAvailable
}""",rule="C07.R5")
V("C08-revert-fix-first-lock-only","C08",MB+"lock.go","""	for lockID := range iterAttrVal(metaCursor, object.AttributeAssociatedObject, idObj[:]) {
		var cur = metaCursor.Bucket().Cursor()

		if !isObjectType(cur, lockID, object.TypeLock) {
			continue
		}
		if currEpoch > 0 && isExpired(cur, lockID, currEpoch) {
			continue
		}
		if inGarbage(cur, lockID) == statusAvailable {
			return true
		}
	}

	return false
}""","""	locked, lockID := associatedWithTypedObject(currEpoch, metaCursor, idObj, object.TypeLock)
	if !locked {
		return false
	}
	return inGarbage(metaCursor, lockID) == statusAvailable
}""",rule="C08.R5")
V("C01-lock-walk-one-cursor","C01",MB+"lock.go","""	for lockID := range iterAttrVal(metaCursor, object.AttributeAssociatedObject, idObj[:]) {
		var cur = metaCursor.Bucket().Cursor()
""","""	var cur = metaCursor.Bucket().Cursor()
	for lockID := range iterAttrVal(metaCursor, object.AttributeAssociatedObject, idObj[:]) {
""",expect="silent")
V("C07-engine-deletes-locked","C07","pkg/local_object_storage/engine/inhume.go","		} else if locked {\n			e.log.Warn(\"skip an expired object with lock\",\n				zap.Stringer(\"addr\", addr))\n			continue\n		}","		} else if locked {\n			e.log.Warn(\"skip an expired object with lock\",\n				zap.Stringer(\"addr\", addr))\n		}",rule="C07.R3")
V("C07-gc-deletes-expired-regular","C07","pkg/local_object_storage/shard/gc.go","		switch typ {\n		case object.TypeTombstone:","		switch typ {\n		case object.TypeTombstone, object.TypeLink:",rule="C07.R4")

V("C14-shard-markgarbage-no-mode-check","C14",SH+"inhume.go","	if s.info.Mode.ReadOnly() {\n		return ErrReadOnlyMode\n	} else if s.info.Mode.NoMetabase() {\n		return ErrDegradedMode\n	}\n\n	inhumed, err := s.metaBase.MarkGarbage(cnr, addrs, mark)","	if s.info.Mode.ReadOnly() && mark == meta.GarbageMarkDefault {\n		return ErrReadOnlyMode\n	} else if s.info.Mode.NoMetabase() {\n		return ErrDegradedMode\n	}\n\n	inhumed, err := s.metaBase.MarkGarbage(cnr, addrs, mark)",rule="C14.R1")
V("C14-gc-runs-in-readonly","C14",SH+"gc.go","	if s.info.Mode != mode.ReadWrite {\n		return\n	}","	if s.info.Mode != mode.ReadWrite && s.info.Mode != mode.ReadOnly {\n		return\n	}",rule="C14.R1")
V("C14-metabase-delete-no-ro-check","C14",MB+"delete.go","	} else if db.mode.ReadOnly() {\n		return nil, CountersDiff{}, ErrReadOnlyMode\n	}","	}",rule="C14.R2")
V("C14-writecache-delete-no-ro-check","C14","pkg/local_object_storage/writecache/delete.go","	if c.readOnly() {\n		return ErrReadOnly\n	}\n","",rule="C14.R2")
V("C14-flushworker-ignores-mode","C14","pkg/local_object_storage/writecache/flush.go","		if !c.readOnly() {\n			if len(addrs) == 1 {","		if !c.readOnly() || len(addrs) > 1 {\n			if len(addrs) == 1 {",rule="C14.R2")
V("C14-fstree-delete-no-ro-check","C14","pkg/local_object_storage/blobstor/fstree/fstree.go","func (t *FSTree) Delete(addr oid.Address) error {\n	if t.readOnly {\n		return common.ErrReadOnly\n	}","func (t *FSTree) Delete(addr oid.Address) error {",rule="C14.R2")
V("C14-metabase-setmode-forgets-mode","C14",MB+"mode.go","	case m.NoMetabase():\n		db.boltDB = nil","	case m.NoMetabase():\n		db.boltDB = nil\n		return nil",rule="C14.R3")

WC="pkg/local_object_storage/writecache/"
V("C17-revert-fix-double-count","C17",WC+"state.go","	x.size -= x.objMap[addr] // zero unless addr is already accounted\n","",rule="C17.R1")
V("C17-delete-forgets-size","C17",WC+"state.go","	x.size -= x.objMap[addr]\n	delete(x.objMap, addr)","	delete(x.objMap, addr)",rule="C17.R1")
V("C17-silent-commaok-add","C17",WC+"state.go","	x.size -= x.objMap[addr] // zero unless addr is already accounted\n	x.size += size","	if old, ok := x.objMap[addr]; ok {\n		x.size -= old\n	}\n	x.size += size",expect="silent")
V("C17-count-before-write","C17",WC+"put.go","	err := c.fsTree.Put(addr, data)\n	if err != nil {\n		return err\n	}\n\n	c.objCounters.Add(addr, objSz)","	c.objCounters.Add(addr, objSz)\n	err := c.fsTree.Put(addr, data)\n	if err != nil {\n		return err\n	}\n",rule="C17.R3")
V("C17-worker-skips-unmark-on-error","C17",WC+"flush.go","		// Irrespective of the outcome these objects are no longer being processed.\n		for _, addr := range addrs {\n			c.flushObjs.Delete(addr)\n		}\n		if err != nil {","		if err == nil {\n			for _, addr := range addrs {\n				c.flushObjs.Delete(addr)\n			}\n		}\n		if err != nil {",rule="C17.R4")
V("C17-scheduler-stops-on-error","C17",WC+"flush.go","			for len(c.flushErrCh) > 0 {\n				<-c.flushErrCh\n			}","			for len(c.flushErrCh) > 0 {\n				<-c.flushErrCh\n			}\n			if c.objCounters.Size() == 0 {\n				return\n			}",rule="C17.R5")
V("C15-meta-before-data","C15",SH+"put.go","	if !cachedPut {\n		var err = s.blobStor.Put(addr, objBin)","	if !cachedPut && !m.NoMetabase() {\n		var err = s.blobStor.Put(addr, objBin)",rule="C15.R1")
V("C15-flushbatch-deletes-on-error","C15",WC+"flush.go","					addr.EncodeToString(), err)\n			}\n		}\n		return err\n	}\n\n	for addr := range objs {","					addr.EncodeToString(), err)\n			}\n			return err\n		}\n	}\n\n	for addr := range objs {",rule="C15.R2")
V("C15-blob-delete-before-meta","C15",SH+"delete.go","	res, diff, err := s.metaBase.Delete(cnr, addrs)\n	if err != nil {\n		return err // stop on metabase error ?\n	}","	res, diff, err := s.metaBase.Delete(cnr, addrs)\n	if err != nil && len(res) == 0 {\n		return err // stop on metabase error ?\n	}",rule="C15.R3")
V("C15-revert-fix-mark-drops-cached-data","C15","pkg/local_object_storage/shard/inhume.go","""	// The data stays where it is (in the write-cache too) until GC removes the
	// object along with its metadata: the mark can still be taken back.
""","""	if mark == meta.GarbageMarkDefault && s.hasWriteCache() {
		for i := range addrs {
			_ = s.writeCache.Delete(oid.NewAddress(cnr, addrs[i]))
		}
	}
""",rule="C15.R4")
V("C15-put-no-rollback","C15",SH+"put.go","			var err = s.blobStor.Delete(addr)\n			if err != nil && !errors.Is(err, apistatus.ErrObjectNotFound) {","			var err error\n			if !cachedPut {\n				err = s.blobStor.Delete(addr)\n			}\n			if err != nil && !errors.Is(err, apistatus.ErrObjectNotFound) {",rule="C15.R5")
V("C16-detach-without-flush","C16",WC+"mode.go","		err := c.flush(true)\n		if err != nil {\n			return err\n		}","		err := c.flush(true)\n		if err != nil && !m.ReadOnly() {\n			return err\n		}",rule="C16.R2")
V("C16-cache-miss-returns-notfound","C16",SH+"get.go","		if errors.Is(err, apistatus.ErrObjectNotFound) {\n			s.log.Debug(\"object is missing in write-cache\",","		if errors.Is(err, apistatus.ErrObjectNotFound) && skipMeta {\n			return false, err\n		}\n		if errors.Is(err, apistatus.ErrObjectNotFound) {\n			s.log.Debug(\"object is missing in write-cache\",",rule="C16.R3")
V("C16-worker-leaks-rlock","C16",WC+"flush.go","		c.modeMtx.RLock()\n		if !c.readOnly() {","		c.modeMtx.RLock()\n		if c.readOnly() {\n			continue\n		}\n		if !c.readOnly() {",rule="C16.R4")

FW="pkg/local_object_storage/blobstor/fstree/fstree_write_linux.go"
V("C13-revert-fix-lock-leak","C13",FW,"	if err != nil {\n		w.batchLock.Unlock()\n		return err\n	}\n	err = sb.write(id, p, data)","	if err != nil {\n		return err\n	}\n	err = sb.write(id, p, data)",rule="C13.R1")
V("C13-revert-fix-double-finalize","C13",FW,"	if err == nil && (sb.cnt >= w.combinedCountLimit || sb.size >= w.combinedSizeLimit) {","	if err == nil && sb.cnt >= w.combinedCountLimit || sb.size >= w.combinedSizeLimit {",rule="C13.R2")
V("C13-newbatch-unlocks-on-success","C13",FW,"	sb.lock.Lock()\n	sb.timer = time.AfterFunc(w.combinedWriteInterval, sb.sync)","	sb.timer = time.AfterFunc(w.combinedWriteInterval, sb.sync)",rule="C13.R0")
V("C13-link-error-swallowed","C13",FW,"		b.err = err\n		b.intSync()\n		return b.err\n	}\n	return nil\n}","		b.err = err\n		b.intSync()\n	}\n	return nil\n}",rule="C13.R")
V("C13-writefile-ignores-close-error","C13",FW,"	if errClose != nil {\n		return fmt.Errorf(\"unix close: %w\", errClose)\n	}\n	return nil","	_ = errClose\n	return nil",rule="C13.R3")
V("C13-generic-close-error-ignored","C13","pkg/local_object_storage/blobstor/fstree/fstree_write_generic.go","	err = f.Close()\n	if err != nil {\n		return fmt.Errorf(\"close file: %w\", err)\n	}\n	return nil","	_ = f.Close()\n	return nil",rule="C13.R3")
V("C13-batch-error-cleared","C13",FW,"	err = unix.Close(b.fd)\n	if b.err == nil && err != nil {\n		b.err = err\n	}","	err = unix.Close(b.fd)\n	b.err = err",rule="C13.R4")
V("C13-silent-defer-unlock","C13",FW,"func (w *linuxWriter) finalize() error {\n	w.batchLock.Lock()\n	defer w.batchLock.Unlock()\n	if w.batch != nil {\n		w.batch.sync()\n		w.batch = nil\n	}\n	return nil\n}","func (w *linuxWriter) finalize() error {\n	w.batchLock.Lock()\n	if w.batch == nil {\n		w.batchLock.Unlock()\n		return nil\n	}\n	w.batch.sync()\n	w.batch = nil\n	w.batchLock.Unlock()\n	return nil\n}",expect="silent")

FG="pkg/local_object_storage/blobstor/fstree/fstree_write_generic.go"
V("C12-link-before-length-check","C12",FW,"		if n == len(data) {\n			err = unix.Linkat(unix.AT_FDCWD, tmpPath, unix.AT_FDCWD, p, unix.AT_SYMLINK_FOLLOW)","		if n == len(data) || n > 0 {\n			err = unix.Linkat(unix.AT_FDCWD, tmpPath, unix.AT_FDCWD, p, unix.AT_SYMLINK_FOLLOW)",rule="C12.R1")
V("C12-batch-link-without-length-check","C12",FW,"	if n != len(pref)+len(data) {\n		b.err = errors.New(\"incomplete write\")\n		b.intSync()\n		return b.err\n	}\n","	_ = n\n",rule="C12.R1",more=[{"file":FW,"old":"	b.size += n\n","new":"	b.size += len(data)\n"}])
V("C12-generic-writes-final-path","C12",FG,"		tmpPath := p + \"#\" + strconv.FormatUint(uint64(i), 10)\n		err := w.writeAndRename(tmpPath, p, data)","		tmpPath := p + \"#\" + strconv.FormatUint(uint64(i), 10)\n		if i == retryCount-1 {\n			return w.writeFile(p, data)\n		}\n		err := w.writeAndRename(tmpPath, p, data)",rule="C12.R2")
V("C12-rename-on-write-error","C12",FG,"		return fmt.Errorf(\"write data into file %q: %w\", tmpPath, err)\n	}\n\n	err = os.Rename(tmpPath, p)","		if !errors.Is(err, common.ErrNoSpace) {\n			return fmt.Errorf(\"write data into file %q: %w\", tmpPath, err)\n		}\n	}\n\n	err = os.Rename(tmpPath, p)",rule="C12.R1")
V("C12-cleaner-other-separator","C12","pkg/local_object_storage/blobstor/fstree/fstree.go","			if !d.IsDir() && strings.Contains(d.Name(), \"#\") {","			if !d.IsDir() && strings.Contains(d.Name(), \"~\") {",rule="C12.R3")
V("C12-link-eperm-tolerated","C12",FW,"			if errors.Is(err, unix.EEXIST) {\n				// https://github.com/nspcc-dev/neofs-node/issues/2563\n				err = nil\n			}","			if errors.Is(err, unix.EEXIST) || errors.Is(err, unix.EPERM) {\n				// https://github.com/nspcc-dev/neofs-node/issues/2563\n				err = nil\n			}",rule="C12.R4")

IC="pkg/innerring/processors/container/"
V("C37-revert-fix-v2-verb","C37",IC+"common.go","""	// zero v.idContainer (container creation) is matched by wildcard contexts only
	if !tok.AssertContainer(v.verbV2, v.idContainer) {
		if v.idContainerSet {
			return errWrongCID
		}
		return errWrongSessionVerb
	}
""","""	if v.idContainerSet {
		if !tok.AssertContainer(v.verbV2, v.idContainer) {
			return errWrongCID
		}
	}
""",rule="C37.R3")
V("C37-delete-approved-on-check-error","C37",IC+"process_container.go","""	err := cp.checkDeleteContainer(e)
	if err != nil {
		cp.log.Error("delete container check failed",
			zap.Error(err),
		)

		return
	}
""","""	err := cp.checkDeleteContainer(e)
	if err != nil {
		cp.log.Error("delete container check failed",
			zap.Error(err),
		)
	}
""",rule="C37.R1")
V("C37-issuer-check-dropped-v1","C37",IC+"common.go","		if !session.IssuedBy(tok, v.ownerContainer) {\n			return errors.New(\"owner differs with token owner\")\n		}\n","",rule="C37.R3")
V("C37-lifetime-error-ignored","C37",IC+"common.go","		err = cp.checkTokenLifetime(tok)\n		if err != nil {\n			return fmt.Errorf(\"check session lifetime: %w\", err)\n		}","		_ = cp.checkTokenLifetime(tok)",rule="C37.R3")
V("C37-seteacl-verb-delete","C37",IC+"process_eacl.go","		verbV2:          sessionv2.VerbContainerSetEACL,","		verbV2:          sessionv2.VerbContainerDelete,",rule="C37.R4")
V("C37-eacl-nonextendable-accepted","C37",IC+"process_eacl.go","	if !cnr.BasicACL().Extendable() {\n		return errors.New(\"ACL extension disabled by container basic ACL\")\n	}","	if !cnr.BasicACL().Extendable() && len(req.SessionToken) == 0 {\n		return errors.New(\"ACL extension disabled by container basic ACL\")\n	}",rule="C37.R2")
V("C37-system-role-allowed","C37",IC+"process_eacl.go","			if target.Role() == eacl.RoleSystem {\n				return errors.New(\"it is prohibited to modify system access\")\n			}","			if target.Role() == eacl.RoleSystem && record.Action() == eacl.ActionDeny {\n				return errors.New(\"it is prohibited to modify system access\")\n			}",rule="C37.R2",expect="fire")
V("C37-unknown-sysattr-skipped","C37",IC+"process_container.go","			if _, ok := allowedSystemAttributes[k]; !ok {\n				return fmt.Errorf(\"system attribute %s is not allowed\", k)\n			}","			if _, ok := allowedSystemAttributes[k]; !ok {\n				continue\n			}",rule="C37.R2")
V("C37-policy-verify-dropped","C37",IC+"process_container.go","	if err = cnr.PlacementPolicy().Verify(); err != nil {\n		return fmt.Errorf(\"invalid storage policy: %w\", err)\n	}","	if err = cnr.PlacementPolicy().Verify(); err != nil && domainZone == \"\" {\n		return fmt.Errorf(\"invalid storage policy: %w\", err)\n	}",rule="C37.R2")
V("C37-create-with-unchecked-eacl","C37",IC+"process_container.go","		err = cp.checkSetEACL(*req.EACLTable, table, id, cnr)\n		if err != nil {","		err = cp.checkSetEACL(*req.EACLTable, table, id, cnr)\n		if err != nil && len(req.SessionToken) == 0 {",rule="C37.R1")

IR="pkg/innerring/"
V("C35-revert-fix-vote-negative-index","C35",IR+"state.go","	if index < 0 || index >= len(s.contracts.alphabet) {","	if index >= len(s.contracts.alphabet) {",rule="C35.R1")
V("C35-emit-guard-dropped","C35",IR+"processors/alphabet/process_emit.go","	index := ap.irList.AlphabetIndex()\n	if index < 0 {","	index := ap.irList.AlphabetIndex()\n	if index < -1 {",rule="C35.R1")
V("C35-alphabetindex-zero-on-error","C35",IR+"state.go","		s.log.Error(\"can't get alphabet index\", zap.Error(err))\n		return -1","		s.log.Error(\"can't get alphabet index\", zap.Error(err))\n		return 0",rule="C35.R2")
V("C35-isalphabet-offbyone","C35",IR+"state.go","	return s.AlphabetIndex() >= 0","	return s.AlphabetIndex() >= -1",rule="C35.R2")
V("C35-keyposition-default-zero","C35",IR+"indexer.go","	result = -1\n	rawBytes := key.Bytes()","	rawBytes := key.Bytes()",rule="C35.R2")
V("C35-indexer-stale-on-committee-error","C35",IR+"indexer.go","	alphabet, err := s.commFetcher.Committee()\n	if err != nil {\n		return indexes{}, err\n	}","	alphabet, err := s.commFetcher.Committee()\n	if err != nil {\n		return s.ind, nil\n	}",rule="C35.R2")

NP="pkg/innerring/processors/netmap/"
V("C38-addnode-validator-error-ignored","C38",NP+"process_peers.go","			zap.String(\"key\", keyString),\n			zap.Error(err),\n		)\n\n		return\n	}","			zap.String(\"key\", keyString),\n			zap.Error(err),\n		)\n	}",rule="C38.R1")
V("C38-addnode-invalid-script-accepted","C38",NP+"process_peers.go","	if err != nil || !ok {","	if err != nil && !ok {",rule="C38.R1")
V("C38-composite-first-validator-only","C38",NP+"nodevalidation/validator.go","		if err := v.Verify(ni); err != nil {\n			return err\n		}\n	}","		if err := v.Verify(ni); err != nil {\n			return err\n		}\n		return nil\n	}",rule="C38.R2")
V("C38-composite-skips-first","C38",NP+"nodevalidation/validator.go","	for _, v := range c.validators {","	for _, v := range c.validators[1:] {",rule="C38.R2")
V("C38-tick-skips-epoch","C38",NP+"process_epoch.go","	nextEpoch := np.epochState.EpochCounter() + 1","	nextEpoch := np.epochState.EpochCounter() + 2",rule="C38.R3")
V("C38-tick-without-alphabet","C38",NP+"process_epoch.go","func (np *Processor) processNewEpochTick() {\n	if !np.alphabetState.IsAlphabet() {\n		np.log.Info(\"non alphabet mode, ignore new epoch tick\")\n		return\n	}","func (np *Processor) processNewEpochTick() {\n	if !np.alphabetState.IsAlphabet() {\n		np.log.Info(\"non alphabet mode, ignore new epoch tick\")\n	}",rule="C38.R3")

EV="pkg/morph/event/"
V("C34-revert-fix-second-call","C34",EV+"container/notary_requests.go","		if eACLCall.ScriptHash() != cnrCall.ScriptHash() || !eACLCall.Type().Equal(event.NotaryTypeFromString(fschaincontracts.PutContainerEACLMethod)) {\n			return nil, fmt.Errorf(\"unexpected second contract call: %s of %s\", eACLCall.Type(), eACLCall.ScriptHash().StringLE())\n		}\n","",rule="C34.R3")
V("C34-second-call-method-only","C34",EV+"container/notary_requests.go","		if eACLCall.ScriptHash() != cnrCall.ScriptHash() || !eACLCall.Type().Equal(","		if !eACLCall.Type().Equal(",rule="C34.R3")
V("C34-witness-validation-skipped-for-4","C34",EV+"notary_preparator.go","	err = p.validateWitnesses(nr.MainTransaction.Scripts, currentAlphabet, invokerWitness)\n	if err != nil {\n		return nil, err\n	}","	err = p.validateWitnesses(nr.MainTransaction.Scripts, currentAlphabet, invokerWitness)\n	if err != nil && !invokerWitness {\n		return nil, err\n	}",rule="C34.R1")
V("C34-unknown-event-accepted","C34",EV+"notary_preparator.go","	if !allowed {\n		return nil, ErrUnknownEvent\n	}","	if !allowed && len(res) > 1 {\n		return nil, ErrUnknownEvent\n	}",rule="C34.R1")
V("C34-unary-parser-unwrapped","C34",EV+"parsers.go","	n.p = acceptOnlySingleCall(p)","	n.p = func(events []NotaryEvent) (Event, error) { return p(events[0]) }",rule="C34.R2")
V("C34-new-multicall-parser-untabled","C34","pkg/innerring/processors/container/processor.go","	p.SetUnaryParser(containerEvent.RestoreRemoveContainerRequest)","	p.SetParser(func(ee []event.NotaryEvent) (event.Event, error) { return containerEvent.RestoreRemoveContainerRequest(ee[0]) })",rule="C34.R2")
V("C34-announce-load-unchecked","C34","pkg/innerring/processors/container/process_announce_load.go","		cp.log.Error(\"announce load check failed\",\n			zap.Error(err),\n		)\n\n		return","		cp.log.Error(\"announce load check failed\",\n			zap.Error(err),\n		)",rule="C34.R4")
V("C34-reputation-bad-signature-approved","C34","pkg/innerring/processors/reputation/process_put.go","		rp.log.Info(\"ignore reputation value\",\n			zap.String(\"reason\", \"invalid signature\"),\n		)\n\n		return","		rp.log.Info(\"ignore reputation value\",\n			zap.String(\"reason\", \"invalid signature\"),\n		)",rule="C34.R4")

# ---- C01 / C06
MB="pkg/local_object_storage/metabase/"
V("C01-islocked-no-container-check","C01",MB+"lock.go","""		if containerMarkedGC(mBucket.Cursor()) {
			return nil
		}

		locked =""","""		locked =""",rule="C01.R1")
V("C01-isexpired-nonstrict","C01",MB+"exists.go","(currEpoch > objExpiration)","(currEpoch >= objExpiration)",rule="C01.R2")
V("C01-nested-min","C01",MB+"exists.go","status = max(parentStatus, status)","status = min(parentStatus, status)",rule="C01.R4")
V("C01-get-skips-status","C01",MB+"get.go","hdr, err = get(metaCursor, addr, true, raw, currEpoch)","hdr, err = get(metaCursor, addr, false, raw, currEpoch)",rule="C01.R1")
V("C01-unfiltered-only-tombstones","C01",MB+"metadata.go","if objectStatus(mb.Cursor(), res[n].ID, curEpoch) != statusAvailable {","if objectStatus(mb.Cursor(), res[n].ID, curEpoch) == statusTombstoned {",rule="C01.R1")
V("C01-exists-wrong-class","C01",MB+"exists.go","""	case statusTombstoned:
		return false, logicerr.Wrap(apistatus.ObjectAlreadyRemoved{})
	case statusExpired:
		return false, ErrObjectIsExpired
	}

	if checkParent {""","""	case statusTombstoned:
		return false, ErrObjectIsExpired
	case statusExpired:
		return false, logicerr.Wrap(apistatus.ObjectAlreadyRemoved{})
	}

	if checkParent {""",rule="C01.R3")
V("C01-search-no-checker","C01",MB+"metadata.go","handleKV := objectcore.MetaDataKVHandler(&resHolder, attrSkr, gcCheck, fs, attrs, cursor, count)","_ = gcCheck\n\thandleKV := objectcore.MetaDataKVHandler(&resHolder, attrSkr, nil, fs, attrs, cursor, count)",rule="C01.R1")
V("C01-handler-ignores-checker","C01","pkg/core/object/metadata.go","""		if additionalCheck != nil && !additionalCheck(oid.ID(id)) {
			return true
		}""","""		if additionalCheck != nil && n > 0 && !additionalCheck(oid.ID(id)) {
			return true
		}""",rule="C01.R1")
V("C01-ec-resolve-before-status","C01",MB+"ec.go","""	switch objectStatus(crs, parent, db.epochState.CurrentEpoch()) {
	case statusGCMarked:
		return oid.ID{}, apistatus.ErrObjectNotFound
	case statusTombstoned:""","""	switch objectStatus(crs, parent, db.epochState.CurrentEpoch()) {
	case statusTombstoned:""",rule="C01.R")
V("C01-ingarbage-redundant-mark-counts","C01",MB+"exists.go","if bytes.Equal(k, garbageMark) && !bytes.Equal(v, redundantGarbageMark) {","if bytes.Equal(k, garbageMark) && len(v) >= 0 {",rule="C01.R4")
V("C01-new-view-unclassified","C01",MB+"select.go","func iterPrefixedIDs(","""func (db *DB) AllIDs(cnr cid.ID) (res []oid.ID) {
	_ = db.boltDB.View(func(tx *bbolt.Tx) error {
		if b := tx.Bucket(metaBucketKey(cnr)); b != nil {
			for id := range iterPrefixedIDs(b.Cursor(), []byte{metaPrefixID}, oid.ID{}) {
				res = append(res, id)
			}
		}
		return nil
	})
	return
}

func iterPrefixedIDs(""",rule="C01.R0")
V("C01-silent-exists-if-chain","C01",MB+"exists.go","""	switch objectStatus(metaCursor, id, currEpoch) {
	case statusGCMarked:
		return false, logicerr.Wrap(fmt.Errorf("%w: %w", apistatus.ObjectNotFound{}, errors.New("object marked as garbage")))
	case statusTombstoned:
		return false, logicerr.Wrap(apistatus.ObjectAlreadyRemoved{})
	case statusExpired:
		return false, ErrObjectIsExpired
	}
""","""	st := objectStatus(metaCursor, id, currEpoch)
	if st == statusTombstoned {
		return false, logicerr.Wrap(apistatus.ObjectAlreadyRemoved{})
	}
	if st == statusGCMarked {
		return false, logicerr.Wrap(fmt.Errorf("%w: %w", apistatus.ObjectNotFound{}, errors.New("object marked as garbage")))
	}
	if st == statusExpired {
		return false, ErrObjectIsExpired
	}
""",expect="silent")
V("C06-list-no-garbage-check","C06",MB+"list.go","""		if inGarbage(mCursor, obj) != statusAvailable && !objectLocked(currEpoch, mCursor, obj) {
			continue
		}
""","""		if inGarbage(mCursor, obj) == statusTombstoned && !objectLocked(currEpoch, mCursor, obj) {
			continue
		}
""",rule="C06.R1")
V("C06-list-dead-container","C06",MB+"list.go","""	if containerMarkedGC(c) {
		return to, cursor
	}

	fillIDTypePrefix(typePrefix)""","""	fillIDTypePrefix(typePrefix)""",rule="C06.R1")
V("C06-cursor-after-skip","C06",MB+"list.go","""		cursor.lastObjectID = obj
		// a locked object stays available whatever marks it has, see objectStatusDirect
		if inGarbage(mCursor, obj) != statusAvailable && !objectLocked(currEpoch, mCursor, obj) {
			continue
		}
""","""		if inGarbage(mCursor, obj) != statusAvailable && !objectLocked(currEpoch, mCursor, obj) {
			continue
		}
		cursor.lastObjectID = obj
""",rule="C06.R3")
V("C06-no-skip-equal","C06",MB+"select.go","""		k, _ = cur.Seek(seekPos)
		if bytes.Equal(k, seekPos) {
			k, _ = cur.Next() // We are looking for objects _after_ the offset.
		}""","""		k, _ = cur.Seek(seekPos)""",rule="C06.R3")
V("C06-reset-always","C06",MB+"list.go","""		if containerID != cursor.containerID {
			cursor.lastObjectID = oid.ID{} // Reset for the next bucket.
		}""","""		cursor.lastObjectID = oid.ID{} // Reset for the next bucket.""",rule="C06.R3")

# ---- strengthened rules (C33.R5, C34.R3b, C38.R2, C46.R4, C47.R6)
V("C34-silent-bound-form","C34","pkg/morph/event/container/notary_requests.go","""	switch l := len(contractCalls); l {
	case 1:
	case 2:
		withOptionalEacl = true
	default:
		return nil, fmt.Errorf("unexpected number of contract calls: %d", l)
	}
""","""	if l := len(contractCalls); l == 0 || l > 2 {
		return nil, fmt.Errorf("unexpected number of contract calls: %d", l)
	}
	withOptionalEacl = len(contractCalls) == 2
""",expect="silent")
V("C34-unbounded-calls","C34","pkg/morph/event/container/notary_requests.go","""	switch l := len(contractCalls); l {
	case 1:
	case 2:
		withOptionalEacl = true
	default:
		return nil, fmt.Errorf("unexpected number of contract calls: %d", l)
	}
""","""	if l := len(contractCalls); l == 0 {
		return nil, fmt.Errorf("unexpected number of contract calls: %d", l)
	}
	withOptionalEacl = len(contractCalls) > 1
""",rule="C34.R3")
V("C38-composite-early-ok","C38","pkg/innerring/processors/netmap/nodevalidation/validator.go","""	for _, v := range c.validators {""","""	if len(ni.PublicKey()) == 0 {
		return nil
	}
	for _, v := range c.validators {""",rule="C38.R2")
V("C33-n3-callback-shortcut","C33","internal/crypto/requests.go","""		verifScriptHash := hash.Hash160(verifScript)
		return""","""		verifScriptHash := hash.Hash160(verifScript)
		if len(invocScript) == 0 {
			return nil
		}
		return""",rule="C33.R5")
V("C33-n3-hash-of-scripts","C33","internal/crypto/requests.go","return sha256.Sum256(data)","return sha256.Sum256(verifScript)",rule="C33.R5")
V("C46-no-reslice","C46","pkg/local_object_storage/shard/restore.go","""		} else {
			data = data[:sz]
		}""","""		}""",rule="C46.R4")
V("C47-cache-before-error","C47","cmd/neofs-node/container.go","""	epoch, err := p.balanceCli.GetUnpaidContainerEpoch(cID)
	if err != nil {
		return 0, fmt.Errorf("FS chain RPC call: %w", err)
	}
	p.statuses[cID] = epoch
""","""	epoch, err := p.balanceCli.GetUnpaidContainerEpoch(cID)
	p.statuses[cID] = epoch
	if err != nil {
		return 0, fmt.Errorf("FS chain RPC call: %w", err)
	}
""",rule="C47.R6")
V("C47-paid-on-unpaid-event","C47","cmd/neofs-node/container.go","""			p.statuses[cID] = int64(ev.Epoch)
		} else {""","""			p.statuses[cID] = -1
		} else {""",rule="C47.R6")

# ---- C02
V("C02-revive-readds-phy","C02",MB+"revive.go","""	switch gcStatus {
	case statusTombstoned, statusGCMarked:
		err := updateCounter(metaC.Bucket(), payloadCounter, int64(size))""","""	if err := updateCounter(metaC.Bucket(), phyCounter, 1); err != nil {
		return err
	}
	switch gcStatus {
	case statusTombstoned, statusGCMarked:
		err := updateCounter(metaC.Bucket(), payloadCounter, int64(size))""",rule="C02.R1")
V("C02-mark-decrements-phy","C02",MB+"inhume.go","""		err = updateCounter(metaBucket, gcCounter, int64(counterDiff.NewGarbage))""","""		if err = updateCounter(metaBucket, phyCounter, -int64(counterDiff.NewGarbage)); err != nil {
			return err
		}
		err = updateCounter(metaBucket, gcCounter, int64(counterDiff.NewGarbage))""",rule="C02.R1")
V("C02-delete-ts-under-lock","C02",MB+"metadata.go","""	case object.TypeTombstone:
		diff.TS--
	case object.TypeLink:
		diff.Link--
	case object.TypeLock:
		diff.Lock--""","""	case object.TypeTombstone:
		diff.Lock--
	case object.TypeLink:
		diff.Link--
	case object.TypeLock:
		diff.TS--""",rule="C02.R2")
V("C02-containerinfo-wrap","C02",MB+"containers.go","""	if phy > gc {
		res.ObjectsNumber = phy - gc
	}""","""	if phy != gc {
		res.ObjectsNumber = phy - gc
	}""",rule="C02.R3")
V("C02-silent-containerinfo-geq","C02",MB+"containers.go","""	if phy > gc {""","""	if phy >= gc {""",expect="silent")
V("C02-unfloored-sub","C02",MB+"counter.go","counter -= min(counter, uint64(-delta))","counter -= uint64(-delta)",rule="C02.R3")
V("C02-direct-key-write","C02",MB+"put.go","""	err = applyDiff(metaBkt, diff)
	if err != nil {""","""	if nestingLevel > 0 {
		_ = metaBkt.Put([]byte{metaPrefixRootCounter}, make([]byte, 8))
	}
	err = applyDiff(metaBkt, diff)
	if err != nil {""",rule="C02.R1")
V("C02-link-counted-as-root","C02",MB+"put.go","""func handleLinkObject(diff *CountersDiff) error {
	diff.Link++""","""func handleLinkObject(diff *CountersDiff) error {
	diff.Root++""",rule="C02.R1")
V("C02-shard-metrics-before-error","C02","pkg/local_object_storage/shard/inhume.go","""	inhumed, err := s.metaBase.MarkGarbage(cnr, addrs, mark)
	if err != nil {""","""	inhumed, err := s.metaBase.MarkGarbage(cnr, addrs, mark)
	s.addObjectCounter(gcObjType, inhumed.NewGarbage)
	if err != nil {""",rule="C02.R4")

# ---- C09
V("C09-put-ignores-tombstone","C09",MB+"put.go","""			return diff, nil
		}
	case err != nil:""","""			return diff, nil
		}
	case errors.Is(err, apistatus.ErrObjectAlreadyRemoved) && nestingLevel > 0:
	case err != nil:""",rule="C09.R1")
V("C09-batch-tolerates-all","C09",MB+"put.go","""					continue
				}
				return err
			}
			successIndices = append(successIndices, i)""","""					continue
				}
				if len(objs) > 1 {
					continue
				}
				return err
			}
			successIndices = append(successIndices, i)""",rule="C09.R2")
V("C09-parent-skips-exists","C09",MB+"put.go","""	exists, err := db.exists(tx, obj.Address(), currEpoch, false)
""","""	var exists bool
	var err error
	if nestingLevel == 0 {
		exists, err = db.exists(tx, obj.Address(), currEpoch, false)
	}
""",rule="C09.R1")
V("C09-remark-clears-mark","C09",MB+"inhume.go","""			if mark == GarbageMarkDefault && len(v) > 0 {
				if err := metaBucket.Put(garbKey, nil); err != nil {
					return diff, err
				}
			}""","""			if mark == GarbageMarkDefault && len(v) > 0 {
				if err := metaBucket.Put(garbKey, nil); err != nil {
					return diff, err
				}
			} else if mark != GarbageMarkDefault && len(v) == 0 {
				if err := metaBucket.Delete(mkGarbageKey(id)); err != nil {
					return diff, err
				}
			}""",rule="C09.R4")
V("C09-silent-put-switch-to-if","C09",MB+"put.go","""	switch {
	case exists:
		return diff, nil
	case errors.As(err, &apistatus.ObjectNotFound{}):
		// Marked as garbage. If the object is still indexed (not collected
		// yet), indexes and counters include it already.
		if _, typErr := fetchTypeForID(metaBkt.Cursor(), obj.GetID()); typErr == nil {
			return diff, nil
		}
	case err != nil:
		return diff, err // return any other errors
	}
""","""	if exists {
		return diff, nil
	}
	if err != nil {
		if !errors.As(err, &apistatus.ObjectNotFound{}) {
			return diff, err // return any other errors
		}
		if _, typErr := fetchTypeForID(metaBkt.Cursor(), obj.GetID()); typErr == nil {
			return diff, nil
		}
	}
""",expect="silent")
V("C02-reput-counts-again","C02",MB+"put.go","""		if _, typErr := fetchTypeForID(metaBkt.Cursor(), obj.GetID()); typErr == nil {
			return diff, nil
		}
""","",rule="C02.R7")
V("C02-tombstone-double-count","C02",MB+"put.go","if !bytes.Equal(k, garbageKey) && inGarbage(metaCursor, id) == statusAvailable {","if !bytes.Equal(k, nil) && inGarbage(metaCursor, id) == statusAvailable {",rule="C02.R5")

# ---- C43
SH="pkg/local_object_storage/shard/"
V("C43-exists-no-lock","C43",SH+"exists.go","""	s.m.RLock()
	defer s.m.RUnlock()
""","",rule="C43.R3")
V("C43-mode-before-components","C43",SH+"mode.go","""	for i := range components {
		if err := components[i](m); err != nil {
			return err
		}
	}

	s.info.Mode = m""","""	s.info.Mode = m
	for i := range components {
		if err := components[i](m); err != nil {
			return err
		}
	}
""",rule="C43.R2")
V("C43-component-error-ignored","C43",SH+"mode.go","""		if err := components[i](m); err != nil {
			return err
		}""","""		if err := components[i](m); err != nil {
			s.log.Warn("component mode", zap.Error(err))
		}""",rule="C43.R2")
V("C43-skip-first-component","C43",SH+"mode.go","""	for i := range components {
		if err := components[i](m); err != nil {""","""	for i := range components[1:] {
		if err := components[i](m); err != nil {""",rule="C43.R2")
V("C43-storage-always-rw","C43",SH+"mode.go","s.blobStor.Open(m.ReadOnly())","s.blobStor.Open(s.info.Mode.ReadOnly())",rule="C43.R5")
V("C43-init-error-dropped","C43",SH+"mode.go","""			err = s.blobStor.Init(common.ID{})""","""			_ = s.blobStor.Init(common.ID{})""",rule="C43.R5")
V("C43-mode-written-in-restore","C43",SH+"restore.go","""	var count, failCount int""","""	if ignoreErrors {
		s.info.Mode = mode.ReadWrite
	}
	var count, failCount int""",rule="C43.R1",more=[{"file":SH+"restore.go","old":'"github.com/nspcc-dev/neofs-sdk-go/object"',"new":'"github.com/nspcc-dev/neofs-node/pkg/local_object_storage/shard/mode"\n\t"github.com/nspcc-dev/neofs-sdk-go/object"'}])
V("C43-silent-setmode-err-var","C43",SH+"mode.go","""		if err := components[i](m); err != nil {
			return err
		}""","""		err := components[i](m)
		if err == nil {
			continue
		}
		return err""",expect="silent")

# ---- C42
V("C42-version-bump-without-migration","C42",MB+"version.go","const currentMetaVersion = 11","const currentMetaVersion = 12",rule="C42.R1")
V("C42-wrong-version-recorded","C42",MB+"version.go","		return updateVersion(tx, 11)","		return updateVersion(tx, 10)",rule="C42.R2")
V("C42-step-error-ignored","C42",MB+"version.go","""	err = updateContainersInterruptable(db, []byte{metadataPrefix}, migrateAssociatedObjectValueToIDBytes)
	if err != nil {
		return fmt.Errorf("rewrite %q attribute values in metadata: %w", object.AttributeAssociatedObject, err)
	}
""","""	err = updateContainersInterruptable(db, []byte{metadataPrefix}, migrateAssociatedObjectValueToIDBytes)
	if err != nil {
		db.log.Warn("rewrite attribute values", zap.Error(err))
	}
""",rule="C42.R2")
V("C42-missing-migration-skipped","C42",MB+"version.go","""		migrate, ok := migrateFrom[i]
		if !ok {
			return fmt.Errorf("%w: expected=%d, stored=%d", ErrOutdatedVersion, currentMetaVersion, stored)
		}
""","""		migrate, ok := migrateFrom[i]
		if !ok {
			continue
		}
""",rule="C42.R3")
V("C42-counter-resync-error-dropped","C42",MB+"version.go","""		err := syncCounter(tx, true)
		if err != nil {
			return fmt.Errorf("resync object counters: %w", err)
		}
		return updateVersion(tx, 11)""","""		_ = syncCounter(tx, true)
		return updateVersion(tx, 11)""",rule="C42.R2")
V("C42-no-ctx-poll","C42",MB+"version.go","""		select {
		case <-db.initCtx.Done():
			return context.Cause(db.initCtx)
		default:
		}
		if err := db.boltDB.Update(""","""		if err := db.boltDB.Update(""",rule="C42.R4",more=[{"file":MB+"version.go","old":'	"context"\n',"new":""}])
V("C42-version-recorded-first","C42",MB+"version.go","""func migrateFrom10Version(db *DB) error {
	err := updateContainersInterruptable(db, []byte{metadataPrefix}, dropHomomorphicIndexes)""","""func migrateFrom10Version(db *DB) error {
	err := db.boltDB.Update(func(tx *bbolt.Tx) error { return updateVersion(tx, 11) })
	if err != nil {
		return err
	}
	err = updateContainersInterruptable(db, []byte{metadataPrefix}, dropHomomorphicIndexes)""",rule="C42.R2",more=[{"file":MB+"version.go","old":"		return updateVersion(tx, 11)\n","new":"		return nil\n"}])

# ---- C03 / C05
V("C03-delete-keeps-int-index","C03",MB+"metadata.go","""		if n, ok := parseInt(string(attrV)); ok {
			kAttrIDInt :=""","""		if n, ok := parseInt(string(attrV)); ok && len(attrV) < 40 {
			kAttrIDInt :=""",rule="C03.R2",expect="silent")
V("C03-delete-skips-parse","C03",MB+"metadata.go","""		ks = append(ks, kIDAttr, kAttrID)
		if n, ok := parseInt(string(attrV)); ok {""","""		ks = append(ks, kIDAttr, kAttrID)
		if len(attrV) > 78 {
			continue
		}
		if n, ok := parseInt(string(attrV)); ok {""",rule="C03.R2")
V("C03-put-int-without-parser","C03",MB+"metadata.go","""			if n, isInt := parseInt(av); isInt {
				err = putIntAttribute(metaBkt, &keyBuf, id, ak, av, &n)""","""			if n, isInt := parseInt(av); isInt || len(av) == 0 {
				err = putIntAttribute(metaBkt, &keyBuf, id, ak, av, &n)""",rule="C03.R2")
V("C03-delete-forgets-plain-class","C03",MB+"metadata.go","		kAttrID[0] = metaPrefixAttrIDPlain","		kAttrID[0] = metaPrefixIDAttr",rule="C03.R1")
V("C03-parseint-other-parser","C03",MB+"util.go","""	n, err := signed256.ParseDecimal(s)
	return n, err == nil""","""	if len(s) > 0 && s[0] == '+' {
		return signed256.Int{}, false
	}
	n, err := signed256.ParseDecimal(s)
	return n, err == nil""",rule="C03.R2")
V("C05-split-keeps-signed-zero","C05","pkg/core/object/metadata.go","""	if start == len(s) {
		return false, "0", nil
	}""","""	if start == len(s) {
		return neg, "0", nil
	}""",rule="C05.R6")
V("C05-decode-accepts-any-sign","C05","internal/signed256/signed256.go","""	default:
		return Int{}, fmt.Errorf("invalid sign byte %d", b[0])
	case 0:
		z.neg = true
	case 1:
	}""","""	case 0:
		z.neg = true
	default:
	}""",rule="C05.R3")
V("C05-fill-no-invert","C05","internal/signed256/signed256.go","""	copy(dst[1:EncodedLen], raw[:])
	if z.neg {
		for i := range dst[1:EncodedLen] {""","""	copy(dst[1:EncodedLen], raw[:])
	if !z.neg {
		for i := range dst[1:EncodedLen] {""",rule="C05.R3")
V("C05-cmp-neg-not-reversed","C05","internal/signed256/signed256.go","""	cmp := z.mag.Cmp(&x.mag)
	if z.neg {
		return -cmp
	}
	return cmp""","""	cmp := z.mag.Cmp(&x.mag)
	if x.neg && !z.neg {
		return -cmp
	}
	return cmp""",rule="C05.R5")
V("C05-double-sign-again","C05","internal/signed256/signed256.go","""	if s[0] == '+' || s[0] == '-' {""","""	if s[0] == '-' {""",rule="C05.R1")
V("C05-minus-zero-kept","C05","internal/signed256/signed256.go","""	if z.mag.IsZero() {
		z.neg = false
	}
	return nil
}""","""	return nil
}""",rule="C05.R3")

# ---- C11
FT="pkg/local_object_storage/blobstor/fstree/"
V("C11-suffix-no-min","C11","pkg/local_object_storage/blobstor/common/storage.go","		ln = min(r.First, payloadLen)","		ln = r.First",rule="C11.R1")
V("C11-bounds-no-order-check","C11","pkg/local_object_storage/blobstor/common/storage.go","		if r.First > r.Second || r.First >= payloadLen {","		if r.First >= payloadLen {",rule="C11.R1")
V("C11-final-test-weakened","C11","pkg/local_object_storage/blobstor/common/storage.go","	if ln != 0 && (off >= payloadLen || payloadLen-off < ln) {","	if ln != 0 && payloadLen-off < ln {",rule="C11.R1")
V("C11-no-toobig-check","C11",FT+"fstree.go","""	if err := checkTooBigRange(off, ln); err != nil {
		return nil, err
	}

	if off >= uint64(len(prefix)) {""","""	if off >= uint64(len(prefix)) {""",rule="C11.R2")
V("C11-tail-limit-from-full-prefix","C11",FT+"fstree.go","""	prefix = prefix[off:]
	if ln <= uint64(len(prefix)) {
		stream.Close()
		return nopCloser(bytes.NewReader(prefix[:ln])), nil
	}

	return newPrefixedReadSeekCloser(prefix, &limitedFileReader{ReadSeekCloser: stream, limit: int64(ln) - int64(len(prefix))}), nil""","""	full := len(prefix)
	prefix = prefix[off:]
	if ln <= uint64(len(prefix)) {
		stream.Close()
		return nopCloser(bytes.NewReader(prefix[:ln])), nil
	}

	return newPrefixedReadSeekCloser(prefix, &limitedFileReader{ReadSeekCloser: stream, limit: int64(ln) - int64(full)}), nil""",rule="C11.R1")
V("C11-limited-seek-no-check","C11",FT+"util.go","""	if offset > l.limit {
		return 0, io.EOF
	}
	_, err := l.ReadSeekCloser.Seek(offset, whence)""","""	_, err := l.ReadSeekCloser.Seek(offset, whence)""",rule="C11.R1")
V("C11-prefixed-read-eof-early","C11",FT+"util.go","""		if n == len(b) {
			// nothing to ask the rest for; its EOF must not end a stream that still has prefix bytes
			return n, nil
		}
""","",rule="C11.R5")
V("C11-prefixed-seek-zero","C11",FT+"util.go","""	if offset == skipBytes {
		return 0, nil
	}

""","",rule="C11.R5")
V("C11-new-mode-unhandled","C11","pkg/local_object_storage/blobstor/common/storage.go","	PayloadRangeModeSuffix\n","	PayloadRangeModeSuffix\n\tPayloadRangeModeAround\n",rule="C11.R3")
V("C11-silent-reordered-test","C11","pkg/local_object_storage/blobstor/common/storage.go","		if r.First > r.Second || r.First >= payloadLen {","		if payloadLen <= r.First || r.Second < r.First {",expect="silent")

# ---- C19
EN="pkg/local_object_storage/engine/"
V("C19-skip-when-no-target","C19",EN+"evacuate.go","""					return count, fmt.Errorf("%w: %s", errPutShard, lst[i])
				}
""","""					if ignoreErrors {
						continue
					}
					return count, fmt.Errorf("%w: %s", errPutShard, lst[i])
				}
""",rule="C19.R2")
V("C19-get-errors-always-ignored","C19",EN+"evacuate.go","""				if err != nil {
					if ignoreErrors {
						continue
					}
					return count, err
				}

				if iec.ObjectWithAttributes""","""				if err != nil {
					continue
				}

				if iec.ObjectWithAttributes""",rule="C19.R2")
V("C19-fault-handler-error-dropped","C19",EN+"evacuate.go","""				err = faultHandler(addr, obj)
				if err != nil {
					return count, err
				}
				count++""","""				_ = faultHandler(addr, obj)
				count++""",rule="C19.R2")
V("C19-drained-shard-deleted-from","C19",EN+"evacuate.go","""					if err == nil {
						e.log.Debug("object is moved to another shard",""","""					if err == nil {
						_ = sh.Delete(addr.Container(), []oid.ID{addr.Object()})
						e.log.Debug("object is moved to another shard",""",rule="C19.R1")
V("C19-not-readonly-allowed","C19",EN+"evacuate.go","""		if !m.ReadOnly() {
			e.mtx.RUnlock()
			return 0, shard.ErrMustBeReadOnly
		}""","""		if !m.ReadOnly() && ignoreErrors {
			e.mtx.RUnlock()
			return 0, shard.ErrMustBeReadOnly
		}""",rule="C19.R4")

# ---- C20
V("C20-removed-verdict-as-failure","C20",EN+"get.go","""				errors.Is(err, ierrors.ErrParentObject),
				errors.Is(err, apistatus.ErrObjectAlreadyRemoved),
				errors.Is(err, apistatus.ErrObjectOutOfRange):""","""				errors.Is(err, ierrors.ErrParentObject),
				errors.Is(err, apistatus.ErrObjectOutOfRange):""",rule="C20.R2")
V("C20-shard-failure-ends-search","C20",EN+"get.go","""			default:
				e.reportShardError(sh, "could not get object from shard", err)
				continue
			}""","""			default:
				e.reportShardError(sh, "could not get object from shard", err)
				return err
			}""",rule="C20.R2")
V("C20-first-pass-always-bypass","C20",EN+"get.go","		err := shardFunc(sh.Shard, noMeta)","		err := shardFunc(sh.Shard, noMeta || hasDegraded)",rule="C20.R1")
V("C20-fallback-break-on-error","C20",EN+"get.go","""		if errors.Is(err, apistatus.ErrObjectOutOfRange) {
			return err
		}
		if err == nil {""","""		if errors.Is(err, apistatus.ErrObjectOutOfRange) {
			return err
		}
		if err != nil && !errors.Is(err, apistatus.ErrObjectNotFound) {
			break
		}
		if err == nil {""",rule="C20.R3")
V("C20-getbytes-direct","C20",EN+"get.go","""	err = e.get(addr, func(s *shard.Shard, ignoreMetadata bool) error {
		if ignoreMetadata {
			b, err = s.GetBytes(addr)
		} else {
			b, err = s.GetBytesWithMetadataLookup(addr)
		}
		return err
	})
	return b, err""","""	for _, sh := range e.sortedShards(addr.Object()) {
		if b, err = sh.GetBytesWithMetadataLookup(addr); err == nil {
			return b, nil
		}
	}
	return b, err""",rule="C20.R4")

# ---- C25
PU="pkg/services/object/put/"
V("C25-count-regardless-of-error","C25",PU+"distributed.go","""		if nr.succeeded = err == nil; nr.succeeded {
			prog.nodesCounters[listInd].stored++
		}""","""		nr.succeeded = err == nil
		prog.nodesCounters[listInd].stored++""",rule="C25.R1")
V("C25-known-node-counts-always","C25",PU+"distributed.go","""				if nr.succeeded { // in some previous list
					prog.nodesCounters[listInd].stored++
					replRem--
				}""","""				prog.nodesCounters[listInd].stored++
				replRem--""",rule="C25.R1")
V("C25-exhausted-before-shortage","C25",PU+"distributed.go","""		listLen := uint(len(nodeList))
		if listLen-prog.nodesCounters[listInd].processed < minRequired {""","""		listLen := uint(len(nodeList))
		if prog.nodesCounters[listInd].processed >= listLen {
			return prog.nodesCounters[listInd].stored, nil
		}
		if listLen-prog.nodesCounters[listInd].processed < minRequired {""",rule="C25.R2")
V("C25-minrequired-unguarded","C25",PU+"distributed.go","""		var minRequired uint
		if minReps > prog.nodesCounters[listInd].stored {
			minRequired = minReps - prog.nodesCounters[listInd].stored
		}""","""		minRequired := minReps - prog.nodesCounters[listInd].stored""",rule="C25.R3")
V("C25-ec-part-ok-without-node","C25",PU+"ec.go","""		if prog != nil && !prog.canTryNode(i) {
			continue
		}
""","""		if prog != nil && !prog.canTryNode(i) {
			return nil
		}
""",rule="C25.R1")
V("C25-ec-rule-ignores-part-errors","C25",PU+"ec.go","""	err := eg.Wait()
	if err != nil {
		var incompleteErr errIncompletePut
		if errors.As(err, &incompleteErr) {
			return prog.finalizeErr(&incompleteErr)
		}

		return err
	}""","""	err := eg.Wait()
	if err != nil {
		var incompleteErr errIncompletePut
		if errors.As(err, &incompleteErr) {
			return prog.finalizeErr(&incompleteErr)
		}
	}""",rule="C25.R2")
V("C25-min-one-when-uncapped","C25",PU+"distributed.go","			minReps, maxReps = repRules[ruleIdx], repRules[ruleIdx]","			minReps, maxReps = 1, repRules[ruleIdx]",rule="C25.R4")
V("C25-meta-error-dropped","C25",PU+"distributed.go","""	err = t.submitMetaCollection(obj)
	if err != nil {
		return err
	}

	if initial {""","""	_ = t.submitMetaCollection(obj)

	if initial {""",rule="C25.R6")

# ---- C24
V("C24-replicate-no-content-check","C24",PU+"local.go","""	err := p.fmtValidator.ValidateContent(ctx, &obj)
	if err != nil {
		return fmt.Errorf("validate payload content: %w", err)
	}
""","""	if obj.Type() != object.TypeRegular {
		if err := p.fmtValidator.ValidateContent(ctx, &obj); err != nil {
			return fmt.Errorf("validate payload content: %w", err)
		}
	}
""",rule="C24.R2")
V("C24-replicate-checksum-skipped-empty","C24",PU+"local.go","""	if !bytes.Equal(h[:], cs.Value()) {
		return errors.New("payload SHA-256 checksum mismatch")
	}""","""	if len(payload) > 0 && !bytes.Equal(h[:], cs.Value()) {
		return errors.New("payload SHA-256 checksum mismatch")
	}""",rule="C24.R2")
V("C24-header-forwarded-before-validation","C24",PU+"validation.go","""	if err := t.fmt.Validate(t.ctx, obj, t.unpreparedObject, false); err != nil {
		return fmt.Errorf("(%T) could not validate object format: %w", t, err)
	}

	err := t.checkQuotaLimits(obj, t.payloadSz)
	if err != nil {
		return err
	}

	err = t.nextTarget.WriteHeader(obj)
	if err != nil {
		return err
	}
""","""	err := t.checkQuotaLimits(obj, t.payloadSz)
	if err != nil {
		return err
	}

	err = t.nextTarget.WriteHeader(obj)
	if err != nil {
		return err
	}

	if err := t.fmt.Validate(t.ctx, obj, t.unpreparedObject, false); err != nil {
		return fmt.Errorf("(%T) could not validate object format: %w", t, err)
	}
""",rule="C24.R4")
V("C24-close-without-checksum","C24",PU+"validation.go","""		if !bytes.Equal(t.hash.Sum(nil), t.checksum) {
			return oid.ID{}, fmt.Errorf("(%T) incorrect payload checksum", t)
		}""","""		if t.isECPart && !bytes.Equal(t.hash.Sum(nil), t.checksum) {
			return oid.ID{}, fmt.Errorf("(%T) incorrect payload checksum", t)
		}""",rule="C24.R4")
V("C24-relay-target-unvalidated","C24",PU+"streamer.go","""		p.target = &validatingTarget{
			l:            p.log,
			ctx:          p.ctx,
			nextTarget:   p.newDistrubutedWriter(prm),
			fmt:          p.fmtValidator,""","""		p.target = &validatingTarget{
			l:            p.log,
			ctx:          p.ctx,
			nextTarget:   p.newDistrubutedWriter(prm),""",rule="C24.R3",expect="fire")
V("C24-auth-skipped-for-split","C24","pkg/core/object/fmt.go","""		if !isEC {
			if err := icrypto.AuthenticateObject(""","""		if !isEC && !firstSet {
			if err := icrypto.AuthenticateObject(""",rule="C24.R5")

# ---- C26
PO="pkg/services/policer/"
V("C26-cached-holder-counts","C26",PO+"check.go","""				if status > 0 {
					candidates = append(candidates, nodes[i])
				}

				continue""","""				if status > 0 {
					candidates = append(candidates, nodes[i])
				} else {
					shortage--
				}

				continue""",rule="C26.R2")
V("C26-maintenance-as-confirmed","C26",PO+"check.go","		plc.checkedNodes.submitAssumedReplicaHolder(node)","		plc.checkedNodes.submitReplicaHolder(node)",rule="C26.R2")
V("C26-holder-test-counts-assumed","C26",PO+"check.go","""		if v {
			if _, ok := n.assumed[k]; !ok {
				return true
			}
		}""","""		if v || k == 0 {
			return true
		}""",rule="C26.R2")
V("C26-ec-drop-after-failed-move","C26",PO+"ec.go","""	if repRes.done {
		p.metrics.IncPolicerObjectReplicated(true)
		p.log.Info("EC part successfully moved to more optimal node, drop",""","""	if repRes.done || len(candidates) > 1 {
		p.metrics.IncPolicerObjectReplicated(true)
		p.log.Info("EC part successfully moved to more optimal node, drop",""",rule="C26.R1")
V("C26-ec-maintenance-ignored","C26",PO+"ec.go","""	if maintenance {
		// same as for REP rules""","""	if maintenance && len(candidates) == 0 {
		// same as for REP rules""",rule="C26.R1")
V("C26-offcontainer-drop-without-holder","C26",PO+"check.go","""			if !c.checkedNodes.atLeastOneHolder() {""","""			if !c.checkedNodes.atLeastOneHolder() && len(repRules) > 1 {""",rule="C26.R3")
V("C26-delete-on-any-placement-error","C26",PO+"check.go","		if containercore.IsErrNotFound(err) {","		if containercore.IsErrNotFound(err) || isEC {",rule="C26.R4")
V("C26-head-error-counts","C26",PO+"check.go","""			} else if err != nil {
				p.log.Error("receive object header to check policy compliance",
					zap.Stringer("object", plc.object.Address),
					zap.Error(err),
				)
			} else {""","""			} else if err != nil && !errors.Is(err, context.DeadlineExceeded) {
				p.log.Error("receive object header to check policy compliance",
					zap.Stringer("object", plc.object.Address),
					zap.Error(err),
				)
			} else {""",rule="C26.R2")

# ---- C27
RP="pkg/services/replicator/"
V("C27-report-on-error","C27",RP+"process.go","""		if err != nil {
			log.Error("could not replicate object",
				zap.Error(err),
			)
		} else {
			log.Debug("object successfully replicated")
""","""		if err != nil && ctx.Err() != nil {
			log.Error("could not replicate object",
				zap.Error(err),
			)
		} else {
			log.Debug("object successfully replicated")
""",rule="C27.R1")
V("C27-local-put-error-ignored","C27",RP+"process.go","""			if err = p.localStorage.Put(ctx, task.obj, objBin); err != nil {
				log.Error("could not put object to local storage", zap.Error(err))
				continue
			}""","""			if err = p.localStorage.Put(ctx, task.obj, objBin); err != nil {
				log.Error("could not put object to local storage", zap.Error(err))
			}""",rule="C27.R1")
V("C27-no-decrement","C27",RP+"process.go","""			log.Debug("object successfully replicated")

			task.quantity--
""","""			log.Debug("object successfully replicated")
""",rule="C27.R2")
V("C27-loop-without-quantity-test","C27",RP+"process.go","	for i := 0; task.quantity > 0 && i < len(task.nodes); i++ {","	for i := 0; i < len(task.nodes); i++ {",rule="C27.R2")
V("C27-reports-first-node","C27",RP+"process.go","""			task.quantity--

			res.SubmitSuccessfulReplication(task.nodes[i])
		}
	}
}""","""			task.quantity--

			res.SubmitSuccessfulReplication(task.nodes[0])
		}
	}
}""",rule="C27.R1")

# ---- C39
PR="pkg/util/precision/"
V("C39-multiply-when-decreasing","C39",PR+"converter.go","""	if decreasePrecision {
		return new(big.Int).Div(n, factor)
	}

	return new(big.Int).Mul(n, factor)""","""	if !decreasePrecision {
		return new(big.Int).Div(n, factor)
	}

	return new(big.Int).Mul(n, factor)""",rule="C39.R2")
V("C39-tobase-wrong-direction","C39",PR+"converter.go","	return convert(n, c.factor, c.base < c.target)","	return convert(n, c.factor, c.base > c.target)",rule="C39.R2")
V("C39-new-unchecked-narrowing","C39",PR+"converter.go","""func Convert(fromPrecision""","""func (c Fixed8Converter) ToBalancePrecisionU(n uint32) int64 {
	return c.toTarget(new(big.Int).SetUint64(uint64(n))).Int64()
}

func Convert(fromPrecision""",rule="C39.R1")

# ---- C08
V("C08-locked-not-fatal","C08",EN+"put.go","""		if errors.Is(err, apistatus.ErrLockNonRegularObject) ||
			errors.Is(err, apistatus.ErrObjectLocked) ||
			errors.Is(err, apistatus.ErrObjectAlreadyRemoved) {""","""		if errors.Is(err, apistatus.ErrLockNonRegularObject) ||
			errors.Is(err, apistatus.ErrObjectAlreadyRemoved) {""",rule="C08.R2")
V("C08-rollback-skips-first","C08",EN+"put.go","""		for _, sh := range goodShards {
			var err = sh.Delete(addr.Container(), []oid.ID{addr.Object()})""","""		for _, sh := range goodShards[1:] {
			var err = sh.Delete(addr.Container(), []oid.ID{addr.Object()})""",rule="C08.R3")
V("C08-success-despite-fatal","C08",EN+"put.go","""	if isFatal || len(goodShards) == 0 {
		return fmt.Errorf("failed to broadcast""","""	if len(goodShards) == 0 {
		return fmt.Errorf("failed to broadcast""",rule="C08.R3")
V("C08-failed-shard-counted","C08",EN+"put.go","""		err := e.putToShard(sh, addr, obj, objBin)
		if err == nil || errors.Is(err, errExists) {
			goodShards = append(goodShards, sh)""","""		err := e.putToShard(sh, addr, obj, objBin)
		if err == nil || errors.Is(err, errExists) || errors.Is(err, shard.ErrReadOnlyMode) {
			goodShards = append(goodShards, sh)""",rule="C08.R1")

# ---- C41
V("C41-use-before-parseerror","C41","internal/object/wire.go","""		val, n := protowire.ConsumeBytes(data[offset:])
		if err := protowire.ParseError(n); err != nil {
			return nil, nil, fmt.Errorf("invalid bytes field at offset %d: %w", offset, err)
		}
		offset += n
""","""		val, n := protowire.ConsumeBytes(data[offset:])
		offset += n
		if err := protowire.ParseError(n); err != nil {
			return nil, nil, fmt.Errorf("invalid bytes field at offset %d: %w", offset, err)
		}
""",rule="C41.R1")
V("C41-bounds-error-ignored","C41","internal/object/wire.go","""	rootHdrf, err := iprotobuf.GetLENFieldBounds(buf, protoobject.FieldObjectHeader)
	if err != nil {
		return idf, sigf, hdrf, err
	}
""","""	rootHdrf, _ := iprotobuf.GetLENFieldBounds(buf, protoobject.FieldObjectHeader)
""",rule="C41.R1")
V("C41-switch-loses-a-case","C41","internal/object/wire.go","""		case protoobject.FieldHeaderSplitPrevious:
""","",rule="C41.R2")
V("C41-silent-err-var","C41","internal/object/wire.go","""		f, err := iprotobuf.ParseLENFieldBounds(buf, off, n, num, typ)
		if err != nil {
			return idf, sigf, hdrf, err
		}

		switch num {
		case protoobject.FieldObjectID:""","""		f, perr := iprotobuf.ParseLENFieldBounds(buf, off, n, num, typ)
		if perr == nil {
		} else {
			return idf, sigf, hdrf, perr
		}

		switch num {
		case protoobject.FieldObjectID:""",expect="silent")

# ---- C44 (progress necessary conditions)
GC="pkg/local_object_storage/shard/gc.go"
V("C44-timer-not-rearmed","C44",GC,"""			gc.remover()
			timer.Reset(gc.removerInterval)
""","""			gc.remover()
""",rule="C44.R1")
V("C44-listener-stops-on-unknown-event","C44",GC,"""			if !ok {
				continue
			}
""","""			if !ok {
				return
			}
""",rule="C44.R1")
V("C44-bin-loop-stops-on-error","C44",GC,"""			if err != nil {
				s.log.Warn("can't delete objects", zap.Error(err))
			}
""","""			if err != nil {
				s.log.Warn("can't delete objects", zap.Error(err))
				return
			}
""",rule="C44.R2")
V("C44-epoch-done-despite-batch","C44",GC,"""	if collected == 0 {
		s.gc.processedEpoch.Store(epoch)
	}
""","""	s.gc.processedEpoch.Store(epoch)
""",rule="C44.R3")
V("C44-scan-error-drops-collected","C44",GC,"""	if err != nil {
		log.Warn("iterate expired objects", zap.Error(err))
	}
	if collected == 0 {""","""	if err != nil {
		log.Warn("iterate expired objects", zap.Error(err))
		return
	}
	if collected == 0 {""",rule="C44.R4")
V("C44-interrupt-is-error","C44","pkg/local_object_storage/metabase/iterators.go","""	if errors.Is(err, ErrInterruptIterator) {
		err = nil
	}
""","",rule="C44.R3")
V("C44-silent-refactor","C44",GC,"""			gc.remover()
			timer.Reset(gc.removerInterval)
""","""			gc.remover()
			d := gc.removerInterval
			timer.Reset(d)
""",expect="silent")
# ---- C24.R6 / C30.R6 sessions cache
V("C30-onmiss-captures-verb","C30","pkg/services/object/acl/v2/service.go","""	sToken, err := b.sessionTokenCommonCheckCache.AuthenticateTokenV2(cacheKey, func() (sessionv2.Token, error) {
		return b.decodeAndVerifySessionTokenV2Common(mV2, mb)
	})""","""	sToken, err := b.sessionTokenCommonCheckCache.AuthenticateTokenV2(cacheKey, func() (sessionv2.Token, error) {
		t, err := b.decodeAndVerifySessionTokenV2Common(mV2, mb)
		if err == nil && !t.AssertVerb(reqVerb, reqCnr) {
			err = errInvalidVerb
		}
		return t, err
	})""",rule="C30.R6")
V("C24-v1-authkey-dropped","C24","internal/crypto/object.go","""		if !sessionToken.AssertAuthKey((*neofsecdsa.PublicKey)(ecdsaPub)) { // same format for all ECDSA schemes
			return errors.New("session token is not for object's signer")
		}
""","""		_ = neofsecdsa.PublicKey{}
""",rule="C24.R6")
V("C24-silent-authority-refactor","C24","internal/crypto/object.go","""			ok, err := sessionTokenV2.AssertAuthority(nodeUser, resolver)
			if err != nil {
				return fmt.Errorf("assert session v2 authority: %w", err)
			}
			if !ok { // same format for all ECDSA schemes
				return errors.New("session v2 token is not for object's signer")
			}
""","""			issuedForSigner, aerr := sessionTokenV2.AssertAuthority(nodeUser, resolver)
			switch {
			case aerr != nil:
				return fmt.Errorf("assert session v2 authority: %w", aerr)
			case !issuedForSigner:
				return errors.New("session v2 token is not for object's signer")
			}
""",expect="silent")
V("C32-signed-size-skips-field","C32","pkg/services/control/service_neofs.pb.go","""	size += proto.BoolSize(3, x.IgnoreErrors)
	return size
}

// StableMarshal marshals x in protobuf binary format with stable field order.
//
// If buffer length is less than x.StableSize(), new buffer is allocated.
//
// Returns any error encountered which did not allow writing the data completely.
// Otherwise, returns the buffer in which the data is written.
//
// Structures with the same field values have the same binary format.
func (x *DumpShardRequest_Body) StableMarshal""","""	return size
}

// StableMarshal marshals x in protobuf binary format with stable field order.
//
// If buffer length is less than x.StableSize(), new buffer is allocated.
//
// Returns any error encountered which did not allow writing the data completely.
// Otherwise, returns the buffer in which the data is written.
//
// Structures with the same field values have the same binary format.
func (x *DumpShardRequest_Body) StableMarshal""",rule="C32.R4")

# ---- C36 (guard structure of the alphabet merge)
GL="pkg/innerring/processors/governance/list.go"
V("C36-limit-third-of-n","C36",GL,"newNodeLimit := (ln - 1) / 3","newNodeLimit := (ln + 1) / 3",rule="C36.R1")
V("C36-limit-checked-after-increment","C36",GL,"""			if limitReached {
				continue
			}
			newNodes++""","""			newNodes++
			if limitReached {
				continue
			}""",rule="C36.R1")
V("C36-new-key-not-counted","C36",GL,"""			if limitReached {
				continue
			}
			newNodes++
		} else {""","""			if !limitReached {
				newNodes++
			}
		} else {""",rule="C36.R1")
V("C36-no-size-test","C36",GL,"""	for _, node := range fsChain {
		if len(result) == ln {
			break
		}

		if !hmap""","""	for _, node := range fsChain {
		if !hmap""",rule="C36.R2")
V("C36-member-not-marked","C36",GL,"""		} else {
			hmap[mainnetAddr] = true
		}
""","""		}
""",rule="C36.R2")
V("C36-unchanged-list-proposed","C36",GL,"""	if newNodes == 0 {
		return nil, nil
	}
""","",rule="C36.R3")
V("C36-ir-no-continue","C36",GL,"""loop:
	for i := range innerRing {
		for j := range before {
			if innerRing[i].Equal(before[j]) {
				result = append(result, after[j])
				continue loop
			}
		}""","""	for i := range innerRing {
		for j := range before {
			if innerRing[i].Equal(before[j]) {
				result = append(result, after[j])
				break
			}
		}""",rule="C36.R4")
V("C36-ir-wrong-index","C36",GL,"result = append(result, after[j])","result = append(result, after[i%len(after)])",rule="C36.R4")
V("C36-nil-list-voted","C36","pkg/innerring/processors/governance/process_update.go","""	if newAlphabet == nil {
		gp.log.Info("no governance update, alphabet list has not been changed")
		return
	}
""","""	if newAlphabet == nil {
		gp.log.Info("no governance update, alphabet list has not been changed")
	}
""",rule="C36.R5")
V("C36-silent-limit-form","C36",GL,"""		limitReached := newNodes == newNodeLimit
""","""		limitReached := newNodes >= newNodeLimit
""",expect="silent")
V("C36-silent-limit-expr","C36",GL,"newNodeLimit := (ln - 1) / 3","newNodeLimit := (len(fsChain) + 2) / 3 - 1",expect="silent")
V("C44-parents-take-batch-slots","C44","pkg/local_object_storage/metabase/graveyard.go","""		if !isNonPhysicalEntry(lookup, obj) {
			removable++
		}
""","""		removable++
		_ = lookup
""",rule="C44.R6")
V("C44-silent-only-removable-listed","C44","pkg/local_object_storage/metabase/graveyard.go","""		if removable >= limit {
			break
		}
		// Delete refuses non-physical entries (they are removed along
		// with their last part), so they must not take the place of
		// removable objects in the batch: otherwise enough of them at
		// the beginning of the list stop garbage collection forever.
		if !isNonPhysicalEntry(lookup, obj) {
			removable++
		}
		objs = append(objs, obj)""","""		if len(objs) >= limit {
			break
		}
		if isNonPhysicalEntry(lookup, obj) {
			continue
		}
		removable++
		objs = append(objs, obj)""",expect="silent")

# ---- rules added after the second seeding round
V("C43-mode-recorded-before-open","C43","pkg/local_object_storage/metabase/control.go","""	if err = db.openBolt(); err != nil {
		return err
	}

	if readOnly {
		db.mode = mode.ReadOnly
	}

	return nil
}""","""	if readOnly {
		db.mode = mode.ReadOnly
	}

	return db.openBolt()
}""",rule="C43.R6")
V("C43-wc-mode-before-open","C43","pkg/local_object_storage/writecache/mode.go","""	if err := c.openStore(m.ReadOnly()); err != nil {
		return err
	}

	c.mode = m
	return nil""","""	c.mode = m
	return c.openStore(m.ReadOnly())""",rule="C43.R6")
V("C01-silent-markvalue-hoisted","C01","pkg/local_object_storage/metabase/inhume.go","""		metaBucket = metaCursor.Bucket()
	)
	addr.SetContainer(cnr)
""","""		metaBucket = metaCursor.Bucket()
		markValue  []byte
	)
	addr.SetContainer(cnr)
	if mark != GarbageMarkDefault {
		markValue = []byte{byte(mark)}
	}
""",expect="silent",more=[{"file":"pkg/local_object_storage/metabase/inhume.go","old":"""		var markValue []byte
		if mark != GarbageMarkDefault {
			markValue = []byte{byte(mark)}
		}
""","new":""}])
V("C02-lock-kept-in-counter","C02","pkg/local_object_storage/metabase/metadata.go","""	case object.TypeLock:
		diff.Lock--
""","""	case object.TypeLock:
""",rule="C02.R")
V("C02-payload-kept-for-stored-parent","C02","pkg/local_object_storage/metabase/metadata.go","""	if !nonPhy && !garbage {
		diff.Payload -= int64(size)
	}""","""	if !nonPhy && !garbage && !isParent {
		diff.Payload -= int64(size)
	}""",rule="C02.R8")
V("C09-silent-wc-delete-helper","C09","pkg/local_object_storage/shard/delete.go","""		for _, id := range res[len(addrs):] { // the rest are addrs, removed above
			err := s.writeCache.Delete(oid.NewAddress(cnr, id))
			if err != nil && !errors.Is(err, apistatus.ErrObjectNotFound) && !errors.Is(err, writecache.ErrReadOnly) {
				s.log.Warn("can't delete object from write cache", zap.Error(err))
			}
		}""","""		for _, id := range res[len(addrs):] { // the rest are addrs, removed above
			s.dropFromWriteCache(oid.NewAddress(cnr, id))
		}""",expect="silent",more=[{"file":"pkg/local_object_storage/shard/delete.go","old":"""func (s *Shard) deleteObjs(cnr cid.ID, addrs []oid.ID) error {""","new":"""func (s *Shard) dropFromWriteCache(addr oid.Address) {
	err := s.writeCache.Delete(addr)
	if err != nil && !errors.Is(err, apistatus.ErrObjectNotFound) && !errors.Is(err, writecache.ErrReadOnly) {
		s.log.Warn("can't delete object from write cache", zap.Error(err))
	}
}

func (s *Shard) deleteObjs(cnr cid.ID, addrs []oid.ID) error {"""}])
V("C28-silent-container-question-helper","C28","pkg/services/object/acl/v2/classifier.go","""	isContainerNode, err := c.fsChain.InContainerInLastTwoEpochs(idCnr, reqAuthorPub)
""","""	isContainerNode, err := c.isContainerKey(idCnr, reqAuthorPub)
""",expect="silent",more=[{"file":"pkg/services/object/acl/v2/classifier.go","old":"""func (c senderClassifier) isInnerRingKey(owner []byte) (bool, error) {""","new":"""func (c senderClassifier) isContainerKey(cnr cid.ID, key []byte) (bool, error) {
	ok, err := c.fsChain.InContainerInLastTwoEpochs(cnr, key)
	if err != nil {
		return false, err
	}
	return ok, nil
}

func (c senderClassifier) isInnerRingKey(owner []byte) (bool, error) {"""}])
V("C28-inner-ring-role-for-any-key","C28","pkg/services/object/acl/v2/classifier.go","""		if bytes.Equal(innerRingKeys[i], owner) {
			return true, nil
		}""","""		if len(innerRingKeys[i]) == len(owner) && !bytes.Equal(nil, owner) {
			return true, nil
		}""",rule="C28.R4")
V("C24-write-error-overwritten","C24","pkg/services/object/put/validation.go","""	if quotaErr := t.checkQuotaLimits(t.cachedHeader, t.writtenPayload); quotaErr != nil {
		err = quotaErr
	}
""","""	err = t.checkQuotaLimits(t.cachedHeader, t.writtenPayload)
""",rule="C24.R7")
V("C03-lower-bound-mismatch-stops-scan","C03","pkg/core/object/metadata.go","""					switch mch {
					case object.MatchStringNotEqual, object.MatchNumGT, object.MatchNumGE:
						return true
					case object.MatchCommonPrefix:
						// matching keys do not go one after another, see prefixNeedsFullScan
						return primPrefixFullScan || prefixNeedsFullScan(attr, val)
					default:
						return false
					}""","""					_ = primPrefixFullScan
					if mch != object.MatchStringNotEqual && (n > 0 || mch != object.MatchNumGT) {
						return false
					}
					return true""",rule="C03.R6")
V("C03-silent-mismatch-if-form","C03","pkg/core/object/metadata.go","""					switch mch {
					case object.MatchStringNotEqual, object.MatchNumGT, object.MatchNumGE:
						return true
					case object.MatchCommonPrefix:
						// matching keys do not go one after another, see prefixNeedsFullScan
						return primPrefixFullScan || prefixNeedsFullScan(attr, val)
					default:
						return false
					}""","""					if mch == object.MatchStringNotEqual || mch == object.MatchNumGT || mch == object.MatchNumGE {
						return true
					}
					if mch == object.MatchCommonPrefix {
						return primPrefixFullScan || prefixNeedsFullScan(attr, val)
					}
					return false""",expect="silent")
V("C36-silent-inputs-cloned","C36",GL,"""	sort.Sort(fsChain)
	sort.Sort(mainnet)
""","""	fsChain = slices.Clone(fsChain)
	mainnet = slices.Clone(mainnet)
	sort.Sort(fsChain)
	sort.Sort(mainnet)
""",expect="silent",more=[{"file":GL,"old":'''	"sort"
''',"new":'''	"slices"
	"sort"
'''}])
V("C25-repeated-ec-rule-gets-first-list","C25","pkg/services/object/put/distributed.go","fin, err := handleECRule(len(repRules)+j, j, payloadParts, ecRules[ecRuleIdx])","fin, err := handleECRule(i, j, payloadParts, ecRules[ecRuleIdx])",rule="C25.R5")
V("C42-switch-to-rw-skips-version-check","C42","pkg/local_object_storage/metabase/mode.go","""		err = db.initWritable(false)""","""		err = db.init(false)""",rule="C42.R7")
V("C45-netmap-update-ends-maintenance","C45","cmd/neofs-node/netmap.go","""	c.startMaintenance()

	err := c.updateNetMapState(netmaprpc.NodeStateMaintenance)
	if err != nil {""","""	c.startMaintenance()

	err := c.updateNetMapState(netmaprpc.NodeStateMaintenance)
	if err != nil {
		c.isMaintenance.Store(false)""",rule="C45.R3")
V("C41-nil-stream-with-error","C41","pkg/local_object_storage/blobstor/fstree/head.go","""				return nil, f, io.ErrUnexpectedEOF""","""				return nil, nil, io.ErrUnexpectedEOF""",rule="C41.R4")
V("C02-recount-counts-redundant-marked","C02","pkg/local_object_storage/metabase/counter.go","""		if k, _ := cInt.Seek(garbageKey); bytes.Equal(k, garbageKey) || inGarbage(cInt, obj) != statusAvailable {""","""		if k, _ := cInt.Seek(garbageKey); bytes.Equal(k, nil) || inGarbage(cInt, obj) != statusAvailable {""",rule="C02.R9")
V("C02-recount-gc-only-stored","C02","pkg/local_object_storage/metabase/counter.go","""	for range iterPrefixedIDs(c, []byte{metaPrefixGarbage}, oid.ID{}) {
		gcCounter++
	}""","""	for obj := range iterPrefixedIDs(c, []byte{metaPrefixGarbage}, oid.ID{}) {
		if string(getObjAttribute(cInt, obj, object.FilterPhysical)) == binPropMarker {
			gcCounter++
		}
	}""",rule="C02.R10")
V("C11-bare-file-for-buffered-entry","C11","pkg/local_object_storage/blobstor/fstree/head.go","""			rsc := &limitedFileReader{
				ReadSeekCloser: f,
				limit:          int64(l - uint32(size-offset)),
			}
""","""			rsc := io.ReadSeekCloser(f)
			if buffered := uint32(size - offset); l > buffered {
				rsc = &limitedFileReader{
					ReadSeekCloser: f,
					limit:          int64(l - buffered),
				}
			}
""",rule="C11.R6")
V("C03-cut-prefix-decoded-for-seek","C03","pkg/core/object/metadata.go","""	if !oidSorted && cursor == "" && primMatcher != object.MatchStringNotEqual && !IsIntegerSearchOp(primMatcher) &&
		!(primMatcher == object.MatchCommonPrefix && prefixNeedsFullScan(fs[0].Header(), primVal)) {""","""	if !oidSorted && cursor == "" && primMatcher != object.MatchStringNotEqual && !IsIntegerSearchOp(primMatcher) {""",rule="C03.R7")
V("C02-silent-recount-objectstatus","C02","pkg/local_object_storage/metabase/counter.go","bytes.Equal(k, garbageKey) || inGarbage(cInt, obj) != statusAvailable {","bytes.Equal(k, garbageKey) || objectStatus(cInt, obj, 0) != statusAvailable {",expect="silent")
V("C42-silent-recount-objectstatus","C42","pkg/local_object_storage/metabase/counter.go","bytes.Equal(k, garbageKey) || inGarbage(cInt, obj) != statusAvailable {","bytes.Equal(k, garbageKey) || objectStatus(cInt, obj, 0) != statusAvailable {",expect="silent")

# ---- C10 (addressing structure)
FT="pkg/local_object_storage/blobstor/fstree/"
V("C10-first-combined-entry-returned","C10",FT+"fstree.go","""		if bytes.Equal(thisOID, id[:]) {
			if l == 0 {
				return nil, io.ErrUnexpectedEOF
			}
			return t.readFullObject(f, nil, int64(l))
		}""","""		if l != 0 && (bytes.Equal(thisOID, id[:]) || id.IsZero() || l < 8) {
			return t.readFullObject(f, nil, int64(l))
		}""",rule="C10.R2")
V("C10-batch-frames-with-first-id","C10",FT+"fstree_write_linux.go","err = sb.write(obj.id, obj.path, obj.data)","err = sb.write(objs[0].id, obj.path, obj.data)",rule="C10.R3")
V("C10-exists-stats-container-dir","C10",FT+"fstree.go","""func (t *FSTree) getPath(addr oid.Address) (string, error) {
	p := t.treePath(addr)
""","""func (t *FSTree) getPath(addr oid.Address) (string, error) {
	p := filepath.Dir(t.treePath(addr))
""",rule="C10.R1")
V("C10-silent-path-local","C10",FT+"fstree.go","""	p := t.treePath(addr)
	return t.getObjectBytesByPath(addr.Object(), p)""","""	objPath := t.treePath(addr)
	id := addr.Object()
	return t.getObjectBytesByPath(id, objPath)""",expect="silent")

# ---- rules after the third seeding round
V("C19-degraded-listing-error-is-done","C19","pkg/local_object_storage/engine/evacuate.go","""				if errors.Is(err, meta.ErrEndOfListing) {
					continue mainLoop
				}""","""				if errors.Is(err, meta.ErrEndOfListing) || errors.Is(err, shard.ErrDegradedMode) {
					continue mainLoop
				}""",rule="C19.R7")
V("C19-listing-ignores-live-lock","C19","pkg/local_object_storage/metabase/list.go","""		if inGarbage(mCursor, obj) != statusAvailable && !objectLocked(currEpoch, mCursor, obj) {""","""		if inGarbage(mCursor, obj) != statusAvailable {
			_ = currEpoch""",rule="C19.R6")

# ---- rules added after the third seeding round, batch B
MB="pkg/local_object_storage/metabase/"; FT="pkg/local_object_storage/blobstor/fstree/"; SH="pkg/local_object_storage/shard/"; WC="pkg/local_object_storage/writecache/"; PU="pkg/services/object/put/"
V("C06-removal-of-unknown-container-forgotten","C06",MB+"inhume.go","""		metaBkt, err := tx.CreateBucketIfNotExists(metaBucketKey(cID))
		if err != nil {
			return fmt.Errorf("create meta bucket: %w", err)
		}
""","""		metaBkt, err := tx.CreateBucketIfNotExists(metaBucketKey(cID))
		if err != nil {
			return fmt.Errorf("create meta bucket: %w", err)
		}
		if metaBkt.Stats().KeyN == 0 {
			return nil
		}
""",rule="C06.R5")
V("C06-removal-mark-error-ignored","C06",MB+"inhume.go","""		if err := metaBkt.Put(containerGCMarkKey, nil); err != nil {
			return fmt.Errorf("write container GC mark: %w", err)
		}
""","""		_ = metaBkt.Put(containerGCMarkKey, nil)
""",rule="C06.R5")
V("C11-decoder-reads-callers-buffer","C11",FT+"head.go","bytes.NewReader(slices.Clone(initial))","bytes.NewReader(initial)",rule="C11.R7",more=[{"file":FT+"head.go","old":'	"slices"\n',"new":""}])
V("C11-decoder-input-cloned-otherwise","C11",FT+"head.go","bytes.NewReader(slices.Clone(initial))","bytes.NewReader(bytes.Clone(initial))",expect="silent",more=[{"file":FT+"head.go","old":'	"slices"\n',"new":""}])
V("C12-put-clears-final-path-first","C12",FT+"fstree.go","""	err := t.writer.writeData(addr.Object(), p, data)""","""	_ = os.Remove(p)
	err := t.writer.writeData(addr.Object(), p, data)""",rule="C12.R5")
V("C14-switch-goes-on-after-failure","C14",SH+"mode.go","""	for i := range components {
		if err := components[i](m); err != nil {
			return err
		}
	}
""","""	var firstErr error
	for i := range components {
		if err := components[i](m); err != nil && firstErr == nil {
			firstErr = err
		}
	}
	if firstErr != nil {
		return firstErr
	}
""",rule="C14.R4")
V("C14-switch-order-inverted","C14",SH+"mode.go","	if m != mode.ReadWrite {\n		if s.hasWriteCache() {","	if m == mode.ReadWrite {\n		if s.hasWriteCache() {",rule="C14.R4")
V("C14-switch-loop-by-value","C14",SH+"mode.go","""	for i := range components {
		if err := components[i](m); err != nil {
			return err
		}
	}
""","""	for _, set := range components {
		err := set(m)
		if err != nil {
			return err
		}
	}
""",expect="silent")
V("C17-cache-tree-combines-two","C17",WC+"storage.go","fstree.WithCombinedCountLimit(1))","fstree.WithCombinedCountLimit(2))",rule="C17.R6")
V("C17-cache-tree-default-combining","C17",WC+"storage.go","		fstree.WithNoSync(c.noSync),\n		fstree.WithCombinedCountLimit(1))","		fstree.WithNoSync(c.noSync))",rule="C17.R6")
V("C17-cache-tree-limit-zero","C17",WC+"storage.go","fstree.WithCombinedCountLimit(1))","fstree.WithCombinedCountLimit(0))",expect="silent")
V("C25-local-refusal-counts-as-copy","C25",PU+"local.go","""	if err := storage.Put(ctx, obj, objBin); err != nil {
		return fmt.Errorf("could not put object to local storage: %w", err)
	}
""","""	if err := storage.Put(ctx, obj, objBin); err != nil && !errors.Is(err, context.Canceled) {
		return fmt.Errorf("could not put object to local storage: %w", err)
	}
""",rule="C25.R8")
V("C25-local-put-error-in-variable","C25",PU+"local.go","""	if err := storage.Put(ctx, obj, objBin); err != nil {
		return fmt.Errorf("could not put object to local storage: %w", err)
	}

	return nil""","""	err := storage.Put(ctx, obj, objBin)
	if err == nil {
		return nil
	}

	return fmt.Errorf("could not put object to local storage: %w", err)""",expect="silent")
V("C07-revert-fix-lock-of-expired-tombstoned","C07",MB+"put.go","		if st == statusTombstoned || st == statusExpired && inGarbage(metaCursor, target) == statusTombstoned {","		if st == statusTombstoned {",rule="C07.R1")
V("C07-lock-admission-tombstone-first","C07",MB+"put.go","		if st == statusTombstoned || st == statusExpired && inGarbage(metaCursor, target) == statusTombstoned {","		if st == statusTombstoned || inGarbage(metaCursor, target) == statusTombstoned {",expect="silent")
EN="pkg/local_object_storage/engine/"
V("C07-revert-fix-lock-walk-stops-at-error","C07",EN+"inhume.go","""			// other shards can still know about a lock
			if firstErr == nil {
				firstErr = err
			}
			continue
""","""			return false, err
""",rule="C07.R6",more=[{"file":EN+"inhume.go","old":"	var firstErr error\n\n	for _, sh := range e.unsortedShards() {\n		locked, err := sh.IsLocked(addr)","new":"	var firstErr error\n	_ = firstErr\n\n	for _, sh := range e.unsortedShards() {\n		locked, err := sh.IsLocked(addr)"}])
V("C08-revert-fix-lock-walk-stops-at-error","C08",EN+"inhume.go","""			// other shards can still know about a lock
			if firstErr == nil {
				firstErr = err
			}
			continue
""","""			return false, err
""",rule="C08.R6",more=[{"file":EN+"inhume.go","old":"	var firstErr error\n\n	for _, sh := range e.unsortedShards() {\n		locked, err := sh.IsLocked(addr)","new":"	var firstErr error\n	_ = firstErr\n\n	for _, sh := range e.unsortedShards() {\n		locked, err := sh.IsLocked(addr)"}])
V("C07-lock-walk-joins-errors","C07",EN+"inhume.go","""			if firstErr == nil {
				firstErr = err
			}
			continue
""","""			firstErr = errors.Join(firstErr, err)
			continue
""",expect="silent")
V("C14-revert-fix-configured-mode-not-applied","C14",SH+"control.go","""	if m := s.GetMode(); m != mode.ReadWrite {
		if err := s.applyConfiguredMode(m); err != nil {
			return fmt.Errorf("could not set configured mode %s: %w", m, err)
		}
	}

	return nil""","""	return nil""",rule="C14.R5")
V("C14-revert-fix-cache-flushes-during-init","C14",SH+"control.go","""		if s.GetMode() == mode.ReadOnly {
			// every component is opened for writing, but a shard that is
			// configured as read-only must not start flushing its cache
			// while the rest is being initialized
			if err := s.writeCache.SetMode(mode.ReadOnly); err != nil {
				return fmt.Errorf("could not set %T mode: %w", s.writeCache, err)
			}
		}
""","",rule="C14.R5")
V("C14-configured-mode-error-ignored","C14",SH+"control.go","""		if err := s.applyConfiguredMode(m); err != nil {
			return fmt.Errorf("could not set configured mode %s: %w", m, err)
		}
""","""		_ = s.applyConfiguredMode(m)
""",rule="C14.R5")
V("C14-configured-mode-applied-eq-form","C14",SH+"control.go","""	if m := s.GetMode(); m != mode.ReadWrite {
		if err := s.applyConfiguredMode(m); err != nil {
			return fmt.Errorf("could not set configured mode %s: %w", m, err)
		}
	}

	return nil""","""	m := s.GetMode()
	if m == mode.ReadWrite {
		return nil
	}
	if err := s.applyConfiguredMode(m); err != nil {
		return fmt.Errorf("could not set configured mode %s: %w", m, err)
	}

	return nil""",expect="silent")
V("C14-revert-fix-configured-storage-stays-writable","C14",SH+"control.go","""		if err := s.applyConfiguredMode(m); err != nil {""","""		if err := s.SetMode(m); err != nil {""",rule="C14.R5")
V("C14-configured-storage-reopen-dropped","C14",SH+"mode.go","""	if m.ReadOnly() {
		// setMode skips the storage of a shard that is already in m, while
		// the storage was opened for writing
		if err := s.reopenStorage(m); err != nil {
			return err
		}
	}

	return s.setMode(m)""","""	return s.setMode(m)""",rule="C14.R5")
V("C14-configured-storage-reopen-error-ignored","C14",SH+"mode.go","""		if err := s.reopenStorage(m); err != nil {
			return err
		}
	}

	return s.setMode(m)""","""		_ = s.reopenStorage(m)
	}

	return s.setMode(m)""",rule="C14.R5")
V("C14-configured-storage-reopened-only-for-degraded","C14",SH+"mode.go","""	if m.ReadOnly() {
		// setMode skips the storage of a shard that is already in m, while""","""	if m.NoMetabase() {
		// setMode skips the storage of a shard that is already in m, while""",rule="C14.R5")
V("C14-configured-storage-reopened-inline","C14",SH+"control.go","""		if err := s.applyConfiguredMode(m); err != nil {
			return fmt.Errorf("could not set configured mode %s: %w", m, err)
		}""","""		if m.ReadOnly() {
			if err := s.reopenStorage(m); err != nil {
				return fmt.Errorf("could not set configured mode %s: %w", m, err)
			}
		}
		if err := s.SetMode(m); err != nil {
			return fmt.Errorf("could not set configured mode %s: %w", m, err)
		}""",expect="silent")
V("C14-configured-storage-reopened-unconditionally","C14",SH+"mode.go","""	if m.ReadOnly() {
		// setMode skips the storage of a shard that is already in m, while
		// the storage was opened for writing
		if err := s.reopenStorage(m); err != nil {
			return err
		}
	}

	return s.setMode(m)""","""	if err := s.reopenStorage(m); err != nil {
		return err
	}

	return s.setMode(m)""",expect="silent")
V("C43-reopen-helper-skips-when-unchanged","C43",SH+"mode.go","""func (s *Shard) reopenStorage(m mode.Mode) error {
	err := s.blobStor.Close()""","""func (s *Shard) reopenStorage(m mode.Mode) error {
	if s.info.Mode == m {
		return nil
	}
	err := s.blobStor.Close()""",rule="C43.R5")
V("C43-storage-switch-skips-for-read-write","C43",SH+"mode.go","""	if s.info.Mode == m {
		return nil
	}

	return s.reopenStorage(m)""","""	if s.info.Mode == m || !m.ReadOnly() {
		return nil
	}

	return s.reopenStorage(m)""",rule="C43.R5")
V("C43-storage-switch-reopen-error-dropped","C43",SH+"mode.go","""	return s.reopenStorage(m)
}""","""	_ = s.reopenStorage(m)
	return nil
}""",rule="C43.R5")
V("C43-storage-switch-inlined-again","C43",SH+"mode.go","""	return s.reopenStorage(m)
}""","""	if err := s.reopenStorage(m); err != nil {
		return err
	}
	return nil
}""",expect="silent")
CM="pkg/local_object_storage/blobstor/common/storage.go"
V("C11-revert-fix-from-zero-of-empty","C11",CM,"		if r.First != 0 && r.First >= payloadLen {","		if r.First >= payloadLen {",rule="C11.R8")
V("C11-zero-pair-refused-on-empty","C11",CM,"""			if off != 0 {
				return 0, 0, apistatus.ErrObjectOutOfRange
			}
			ln = payloadLen""","""			if off != 0 || payloadLen == 0 {
				return 0, 0, apistatus.ErrObjectOutOfRange
			}
			ln = payloadLen""",rule="C11.R8")
V("C11-from-zero-nested-form","C11",CM,"""		if r.First != 0 && r.First >= payloadLen {
			return 0, 0, apistatus.ErrObjectOutOfRange
		}""","""		if r.First != 0 {
			if r.First >= payloadLen {
				return 0, 0, apistatus.ErrObjectOutOfRange
			}
		}""",expect="silent")

# ---- rules added after the third seeding round, batch C
CR="internal/crypto/requests.go"; S2="internal/signed256/signed256.go"; PP="pkg/services/policer/process.go"; EH="pkg/services/object/acl/eacl/v2/headers.go"
V("C29-present-header-not-verified-for-peers","C29",CR,"""	if req.GetVerifyHeader() != nil {
		return true
	}
	meta := req.GetMetaHeader()""","""	meta := req.GetMetaHeader()""",rule="C29.R7")
V("C33-present-header-not-verified-for-peers","C33",CR,"""	if req.GetVerifyHeader() != nil {
		return true
	}
	meta := req.GetMetaHeader()""","""	meta := req.GetMetaHeader()""",rule="C33.R1")
V("C29-signature-gate-reordered","C29",CR,"""	if req.GetVerifyHeader() != nil {
		return true
	}
	meta := req.GetMetaHeader()
	if meta == nil || meta.GetTtl() != 1 {
		return true
	}
	return !peerauth.IsTrustedPeer(ctx)""","""	meta := req.GetMetaHeader()
	if meta == nil || meta.GetTtl() != 1 {
		return true
	}
	if req.GetVerifyHeader() != nil {
		return true
	}
	return !peerauth.IsTrustedPeer(ctx)""",expect="silent")
V("C03-clamped-bound-kept","C03",S2,"""		v, err := strconv.ParseUint(digits, 10, 64)
		if err == nil {
			z.mag.SetUint64(v)
			z.neg = neg && v != 0
			return z, nil
		}""","""		v, err := strconv.ParseUint(digits, 10, 64)
		if err == nil || len(digits) == 20 {
			z.mag.SetUint64(v)
			z.neg = neg && v != 0
			return z, nil
		}""",rule="C03.R8")
V("C05-clamped-bound-kept","C05",S2,"""		v, err := strconv.ParseUint(digits, 10, 64)
		if err == nil {
			z.mag.SetUint64(v)
			z.neg = neg && v != 0
			return z, nil
		}""","""		v, err := strconv.ParseUint(digits, 10, 64)
		if err == nil || len(digits) == 20 {
			z.mag.SetUint64(v)
			z.neg = neg && v != 0
			return z, nil
		}""",rule="C05.R7")
V("C05-word-parser-ne-form","C05",S2,"""		v, err := strconv.ParseUint(digits, 10, 64)
		if err == nil {
			z.mag.SetUint64(v)
			z.neg = neg && v != 0
			return z, nil
		}""","""		if v, err := strconv.ParseUint(digits, 10, 64); err != nil {
			_ = v // too big for one word, parsed below
		} else {
			z.mag.SetUint64(v)
			z.neg = neg && v != 0
			return z, nil
		}""",expect="silent")
V("C27-wrap-reuses-start-cursor","C27",PP,"""	cursor = engine.NewCursor(stopAddr.Container(), stopAddr.Object())
""","""	startCursor := engine.NewCursor(stopAddr.Container(), stopAddr.Object())
	cursor = startCursor
""",rule="C27.R5",more=[{"file":PP,"old":"					wrapped = true\n					cursor = nil","new":"					wrapped = true\n					cursor = startCursor"}])
V("C27-start-cursor-in-variable","C27",PP,"""	cursor = engine.NewCursor(stopAddr.Container(), stopAddr.Object())
""","""	startCursor := engine.NewCursor(stopAddr.Container(), stopAddr.Object())
	cursor = startCursor
""",expect="silent")
V("C28-put-headers-incomplete-on-fetch-error","C28",EH,"""					if err != nil {
						return fmt.Errorf("fetching first object header: %w", err)
					}
""","""					if err != nil {
						dst.objectHeaders = addressHeaders(h.cnr, h.obj)
						dst.incompleteObjectHeaders = true
						break
					}
""",rule="C28.R5")
V("C28-get-incomplete-flag-set-conditionally","C28",EH,"""			dst.objectHeaders = objHeaders
			dst.incompleteObjectHeaders = !completed""","""			dst.objectHeaders = objHeaders
			if !completed {
				dst.incompleteObjectHeaders = true
			}""",expect="silent")
V("C30-reset-keeps-a-small-cache","C30","internal/sessions/cache.go","""	ch.cache.Purge()""","""	if ch.cache.Len() > 512 {
		ch.cache.Purge()
	}""",expect="silent")
V("C30-bearer-reset-keeps-a-small-cache","C30","pkg/services/object/acl/v2/service.go","""	b.bearerTokenCommonCheckCache.Purge()""","""	if b.bearerTokenCommonCheckCache.Len() > 512 {
		b.bearerTokenCommonCheckCache.Purge()
	}""",rule="C30.R8")
V("C31-receiver-check-over-two-epochs","C31","cmd/neofs-node/object.go","""	return x.placement.ForEachContainerNodePublicKey(id, f)""","""	return x.placement.ForEachContainerNodePublicKeyInLastTwoEpochs(id, f)""",rule="C31.R5")
V("C31-current-iteration-asks-previous-epoch","C31","pkg/services/object/placement/service.go","""	return s.forEachContainerNode(cnrID, false, func(node netmap.NodeInfo) bool {""","""	return s.forEachContainerNode(cnrID, true, func(node netmap.NodeInfo) bool {""",rule="C31.R5")
V("C31-previous-epoch-always-applied","C31","pkg/services/object/placement/service.go","""	if !withPrevEpoch || curEpoch == 0 {""","""	if curEpoch == 0 {""",rule="C31.R5")
V("C33-peer-key-from-last-certificate","C33","pkg/network/peerauth/peerauth.go","""	key, err := CertificatePublicKey(info.State.PeerCertificates[0])""","""	key, err := CertificatePublicKey(info.State.PeerCertificates[len(info.State.PeerCertificates)-1])""",rule="C33.R6")
V("C34-expiration-off-by-one","C34","pkg/morph/event/notary_preparator.go","""	if currBlock >= nvb.Height {""","""	if currBlock > nvb.Height {""",rule="C34.R5")
V("C34-expiration-lt-form","C34","pkg/morph/event/notary_preparator.go","""	if currBlock >= nvb.Height {
		return ErrMainTXExpired
	}

	return nil""","""	if currBlock < nvb.Height {
		return nil
	}

	return ErrMainTXExpired""",expect="silent")
AS="pkg/services/object/acl/v2/service.go"
V("C30-revert-fix-v1-lifetime-in-cached-part","C30",AS,"""	// the cache is shared with the object validation which stores verdicts on
	// the token's signature only, so nothing bound to the current epoch can be
	// a part of the cached result
	currentEpoch, err := b.nm.Epoch()
	if err != nil {
		return session.Object{}, errors.New("can't fetch current epoch")
	}
	if sToken.ExpiredAt(currentEpoch) {
		return session.Object{}, apistatus.ErrSessionTokenExpired
	}
	if !sToken.ValidAt(currentEpoch) {
		return session.Object{}, fmt.Errorf("%s: token is invalid at %d epoch)", invalidRequestMessage, currentEpoch)
	}

""","",rule="C30.R2",more=[{"file":AS,"old":"""	body, err := iprotobuf.GetFirstBytesField(mb)
	if err != nil {
		return token, fmt.Errorf("get body from calculated session token binary: %w", err)
	}

	if err := icrypto.AuthenticateToken(sessionTokenWithEncodedBody{""","new":"""	currentEpoch, err := b.nm.Epoch()
	if err != nil {
		return token, errors.New("can't fetch current epoch")
	}
	if token.ExpiredAt(currentEpoch) {
		return token, apistatus.ErrSessionTokenExpired
	}
	if !token.ValidAt(currentEpoch) {
		return token, fmt.Errorf("%s: token is invalid at %d epoch)", invalidRequestMessage, currentEpoch)
	}

	body, err := iprotobuf.GetFirstBytesField(mb)
	if err != nil {
		return token, fmt.Errorf("get body from calculated session token binary: %w", err)
	}

	if err := icrypto.AuthenticateToken(sessionTokenWithEncodedBody{"""}])
V("C30-v1-lifetime-checked-twice","C30",AS,"""	body, err := iprotobuf.GetFirstBytesField(mb)
	if err != nil {
		return token, fmt.Errorf("get body from calculated session token binary: %w", err)
	}

	if err := icrypto.AuthenticateToken(sessionTokenWithEncodedBody{""","""	if currentEpoch, err := b.nm.Epoch(); err == nil && token.ExpiredAt(currentEpoch) {
		return token, apistatus.ErrSessionTokenExpired
	}

	body, err := iprotobuf.GetFirstBytesField(mb)
	if err != nil {
		return token, fmt.Errorf("get body from calculated session token binary: %w", err)
	}

	if err := icrypto.AuthenticateToken(sessionTokenWithEncodedBody{""",rule="C30.R6")
V("C30-v1-expiry-not-checked-per-request","C30",AS,"""	if sToken.ExpiredAt(currentEpoch) {
		return session.Object{}, apistatus.ErrSessionTokenExpired
	}
	if !sToken.ValidAt""","""	if !sToken.ValidAt""",rule="C30.R2")
V("C30-sessions-cache-reset-keeps-positives","C30","internal/sessions/cache.go","""	ch.cache.Purge()""","""	for _, k := range ch.cache.Keys() {
		if res, ok := ch.cache.Peek(k); ok && res.err != nil {
			ch.cache.Remove(k)
		}
	}""",expect="silent")
MD="pkg/core/object/metadata.go"
V("C03-revert-fix-other-kind-matched-on-key","C03",MD,"""				if IsIntegerSearchOp(mch) != intPrimMatcher {
					// the key holds the value in the form of the primary filter's
					// kind only (plain or integer), the filter of the other kind
					// is applied to the attribute itself below
					continue
				}
""","",rule="C03.R9",more=[{"file":MD,"old":"			if !idIter && (i == 0 || fs[i].Header() == fs[0].Header() && IsIntegerSearchOp(fs[i].Operation()) == intPrimMatcher) { // already checked","new":"			if !idIter && (i == 0 || fs[i].Header() == fs[0].Header()) { // already checked"}])
V("C03-same-kind-test-eq-form","C03",MD,"""				if IsIntegerSearchOp(mch) != intPrimMatcher {
					// the key holds the value in the form of the primary filter's
					// kind only (plain or integer), the filter of the other kind
					// is applied to the attribute itself below
					continue
				}
				var matches bool
				if IsIntegerSearchOp(mch) {
					matches = fs[i].AutoMatch || intBytesMatch(primDBVal, mch, fs[i].Raw)
				} else {""","""				sameKind := IsIntegerSearchOp(mch) == intPrimMatcher
				if !sameKind {
					continue
				}
				var matches bool
				if IsIntegerSearchOp(mch) {
					matches = fs[i].AutoMatch || intBytesMatch(primDBVal, mch, fs[i].Raw)
				} else {""",expect="silent")
FH="pkg/local_object_storage/blobstor/fstree/head.go"
V("C10-revert-fix-window-behind-buffer","C10",FH,"""			if offset+objectwire.NonPayloadFieldsBufferLength > len(buf) {
				// the entry starts too close to the buffer end for the
				// whole window to fit behind it
				n = copy(buf, buf[offset:n])
				offset = 0
			}
""","",rule="C10.R5")
V("C10-window-check-off-by-a-prefix","C10",FH,"""			if offset+objectwire.NonPayloadFieldsBufferLength > len(buf) {""","""			if offset+objectwire.NonPayloadFieldsBufferLength-combinedDataOff > len(buf) {""",rule="C10.R5")
V("C10-window-always-rebased","C10",FH,"""			if offset+objectwire.NonPayloadFieldsBufferLength > len(buf) {""","""			if offset > 0 {""",expect="silent")
V("C10-decoder-reads-callers-buffer","C10",FH,"bytes.NewReader(slices.Clone(initial))","bytes.NewReader(initial)",rule="C10.R4",more=[{"file":FH,"old":'	"slices"\n',"new":""}])

# ---- rules added after the third seeding round, batch D
TK="internal/crypto/tokens.go"; PE="pkg/innerring/processors/netmap/process_epoch.go"; IRG="pkg/innerring/innerring.go"; SHH="pkg/local_object_storage/shard/head.go"; WCM="pkg/local_object_storage/writecache/mode.go"; NNM="cmd/neofs-node/netmap.go"; ERS="pkg/local_object_storage/engine/restore.go"
V("C37-origin-chain-not-authenticated","C37",TK,"""	if origin := token.Origin(); origin != nil {
		if err := AuthenticateTokenV2(origin, fsChain); err != nil {
			return fmt.Errorf("origin token: %w", err)
		}
	}

	issuer := token.Issuer()""","""	if origin := token.Origin(); origin != nil && fsChain != nil {
		if err := AuthenticateTokenV2(origin, fsChain); err != nil {
			return fmt.Errorf("origin token: %w", err)
		}
	}

	issuer := token.Issuer()""",rule="C37.R5")
V("C38-epoch-recorded-after-netmap-read","C38",PE,"""	np.epochState.SetEpochCounter(epoch)

	h, err := np.netmapClient.Morph().TxHeight(ev.TxHash())""","""	h, err := np.netmapClient.Morph().TxHeight(ev.TxHash())""",rule="C38.R5",more=[{"file":PE,"old":"	var oldMap = np.curMap.Swap(networkMap).(*netmap.NetMap)\n","new":"	var oldMap = np.curMap.Swap(networkMap).(*netmap.NetMap)\n	np.epochState.SetEpochCounter(epoch)\n"}])
V("C38-epoch-recorded-first","C38",PE,"""	epochDuration, err := np.netmapClient.EpochDuration()
	if err != nil {
		l.Warn("can't get epoch duration",
			zap.Error(err))
	} else {
		np.epochState.SetEpochDuration(epochDuration)
	}

	np.epochState.SetEpochCounter(epoch)
""","""	np.epochState.SetEpochCounter(epoch)

	epochDuration, err := np.netmapClient.EpochDuration()
	if err != nil {
		l.Warn("can't get epoch duration",
			zap.Error(err))
	} else {
		np.epochState.SetEpochDuration(epochDuration)
	}
""",expect="silent")
V("C40-tick-behind-a-once-per-epoch-flag","C40",IRG,"""			{
				Tick:     basicIncomeTick,""","""			{
				Tick: func() {
					if !server.basicIncomeGate.CompareAndSwap(false, true) {
						return
					}
					basicIncomeTick()
				},""",rule="C40.R7",more=[{"file":"pkg/innerring/innerring.go","old":"func initTimers(server *Server, cfg *config.Config, paymentProcessor *settlement.Processor) {","new":"func initTimers(server *Server, cfg *config.Config, paymentProcessor *settlement.Processor) {\n	server.basicIncomeGate = new(atomic.Bool)"},{"file":"pkg/innerring/innerring.go","old":"		epochTimers     *timers.EpochTimers\n","new":"		epochTimers     *timers.EpochTimers\n		basicIncomeGate *atomic.Bool\n"}])
V("C40-tick-through-a-logging-closure","C40",IRG,"""			{
				Tick:     basicIncomeTick,""","""			{
				Tick: func() {
					server.log.Debug("basic income tick")
					basicIncomeTick()
				},""",expect="silent")
V("C41-parent-parser-sees-header-limit-only","C41",SHH,"""	idf, sigf, hdrf, err := iobject.GetParentNonPayloadFieldBounds(b)""","""	idf, sigf, hdrf, err := iobject.GetParentNonPayloadFieldBounds(b[:min(len(b), object.MaxHeaderLen)])""",rule="C41.R6")
V("C41-parent-parser-full-slice","C41",SHH,"""	idf, sigf, hdrf, err := iobject.GetParentNonPayloadFieldBounds(b)""","""	idf, sigf, hdrf, err := iobject.GetParentNonPayloadFieldBounds(b[:len(b)])""",expect="silent")
V("C43-cache-records-mode-before-flush","C43",WCM,"""	if m.NoMetabase() && !c.mode.NoMetabase() {
		err := c.flush(true)
		if err != nil {
			return err
		}
	}

	if m.NoMetabase() {
		c.mode = m
		return nil
	}
""","""	if m.NoMetabase() {
		flushNeeded := !c.mode.NoMetabase()
		c.mode = m
		if flushNeeded {
			return c.flush(true)
		}
		return nil
	}
""",rule="C43.R7")
V("C43-cache-flush-condition-in-variable","C43",WCM,"""	if m.NoMetabase() && !c.mode.NoMetabase() {
		err := c.flush(true)
		if err != nil {
			return err
		}
	}
""","""	flushNeeded := m.NoMetabase() && !c.mode.NoMetabase()
	if flushNeeded {
		if err := c.flush(true); err != nil {
			return err
		}
	}
""",expect="silent")
V("C45-maintenance-rolled-back-on-failed-update","C45",NNM,"""	case control.NetmapStatus_MAINTENANCE:
		return c.setMaintenanceStatus()""","""	case control.NetmapStatus_MAINTENANCE:
		err := c.setMaintenanceStatus()
		if err != nil {
			c.stopMaintenance()
		}
		return err""",rule="C45.R3")
V("C46-counting-reader-drops-tail","C46",ERS,"""	_, _, err := sh.Restore(r, ignoreErrors)
	return err
}""","""	_, _, err := sh.Restore(&countingReader{r: r}, ignoreErrors)
	return err
}

type countingReader struct {
	r io.Reader
	n uint64
}

func (x *countingReader) Read(p []byte) (int, error) {
	n, err := x.r.Read(p)
	if err != nil {
		return 0, err
	}
	x.n += uint64(n)
	return n, nil
}""",rule="C46.R5")
V("C46-counting-reader-keeps-count","C46",ERS,"""	_, _, err := sh.Restore(r, ignoreErrors)
	return err
}""","""	_, _, err := sh.Restore(&countingReader{r: r}, ignoreErrors)
	return err
}

type countingReader struct {
	r io.Reader
	n uint64
}

func (x *countingReader) Read(p []byte) (int, error) {
	n, err := x.r.Read(p)
	x.n += uint64(n)
	return n, err
}""",expect="silent")
PC="pkg/services/policer/check.go"
V("C26-revert-fix-trusted-copies-protection-in-chain","C26",PC,"""	if uncheckedCopies > 0 && plc.localNodeInContainer && !plc.needLocalCopy {
		// The local node is listed by this rule behind the nodes that were
		// enough to cover it, and some of those are maintenance ones nobody has
		// heard from. Whatever has been started for the rule above (replication
		// may fail), the local copy can be the only one.
		plc.needLocalCopy = true
		p.log.Debug("some of the copies are stored on nodes under maintenance, save local copy of the container node",
			zap.Int("count", uncheckedCopies))
	}
""","",rule="C26.R7")
V("C26-trusted-copies-protection-merged","C26",PC,"""	} else if uncheckedCopies > 0 {
		// If we have more copies than needed, but some of them are from the maintenance nodes,
		// save the local copy.
		plc.needLocalCopy = true
		p.log.Debug("some of the copies are stored on nodes under maintenance, save local copy",
			zap.Int("count", uncheckedCopies))
	}

	if uncheckedCopies > 0 && plc.localNodeInContainer && !plc.needLocalCopy {""","""	}

	if uncheckedCopies > 0 && (plc.localNodeInContainer || shortage == 0 && len(candidates) == 0) && !plc.needLocalCopy {""",expect="silent")
V("C28-revert-fix-bare-split-header-gets-no-headers","C28",EH,"""				if splitHeader == nil || splitHeader.SplitId != nil ||
					splitHeader.GetParentHeader() == nil && splitHeader.GetFirst() == nil {""","""				if splitHeader == nil || splitHeader.SplitId != nil {""",rule="C28.R6",more=[{"file":EH,"old":"""					var firstID oid.ID

					err := firstID.FromProtoMessage(splitHeader.GetFirst())
					if err != nil {
						return fmt.Errorf("converting first object ID: %w", err)
					}

					var addr oid.Address
					addr.SetObject(firstID)
					addr.SetContainer(h.cnr)

					firstObject, err := h.headerSource.Head(h.ctx, addr)
					if err != nil {
						return fmt.Errorf("fetching first object header: %w", err)
					}

					dst.objectHeaders = headersFromObject(firstObject.Parent(), h.cnr, h.obj)
				}""","new":"""					if mf := splitHeader.GetFirst(); mf != nil {
						var firstID oid.ID

						err := firstID.FromProtoMessage(mf)
						if err != nil {
							return fmt.Errorf("converting first object ID: %w", err)
						}

						var addr oid.Address
						addr.SetObject(firstID)
						addr.SetContainer(h.cnr)

						firstObject, err := h.headerSource.Head(h.ctx, addr)
						if err != nil {
							return fmt.Errorf("fetching first object header: %w", err)
						}

						dst.objectHeaders = headersFromObject(firstObject.Parent(), h.cnr, h.obj)
					}
				}"""}])

# ---- rules added after batch E
FTG="pkg/local_object_storage/blobstor/fstree/fstree_write_generic.go"; FTF="pkg/local_object_storage/blobstor/fstree/fstree.go"; EEX="pkg/local_object_storage/engine/exists.go"; EDL="pkg/local_object_storage/engine/delete.go"; PVL="pkg/services/object/put/validation.go"; GPU="pkg/innerring/processors/governance/process_update.go"; BPA="pkg/innerring/processors/balance/process_assets.go"; MMD="pkg/local_object_storage/metabase/metadata.go"
V("C13-no-space-for-any-path-error","C13",FTG,"""			case errors.Is(pe.Err, syscall.ENOSPC):
				err = common.ErrNoSpace
				_ = os.RemoveAll(tmpPath)""","""			case errors.Is(pe.Err, syscall.ENOSPC), errors.Is(pe.Err, syscall.EDQUOT) || pe.Op == "write":
				err = common.ErrNoSpace
				_ = os.RemoveAll(tmpPath)""",rule="C13.R6")
V("C15-batch-skips-unusable-directory","C15",FTF,"""		if err := util.MkdirAllX(filepath.Dir(p), t.Permissions); err != nil {
			return fmt.Errorf("mkdirall for %q: %w", p, err)
		}
		writeDataUnits = append(""","""		if err := util.MkdirAllX(filepath.Dir(p), t.Permissions); err != nil {
			continue
		}
		writeDataUnits = append(""",rule="C15.R7")
V("C15-batch-empty-check-inverted-form","C15",FTF,"""		if len(data) == 0 {
			continue
		}
		p := t.treePath(addr)
		if err := util.MkdirAllX""","""		if len(data) != 0 {
			if err := t.prepareDir(addr); err != nil {
				return err
			}
		}
		if len(data) == 0 {
			continue
		}
		p := t.treePath(addr)
		if err := util.MkdirAllX""",expect="silent",more=[{"file":FTF,"old":"// PutBatch puts a batch of objects in the storage.","new":"func (t *FSTree) prepareDir(addr oid.Address) error {\n	return util.MkdirAllX(filepath.Dir(t.treePath(addr)), t.Permissions)\n}\n\n// PutBatch puts a batch of objects in the storage."}])
V("C20-put-acknowledged-over-a-marked-copy","C20",EEX,"""			if shard.IsErrObjectExpired(err) {
				return true, nil
			}
""","""			if shard.IsErrObjectExpired(err) || errors.Is(err, apistatus.ErrObjectNotFound) {
				return true, nil
			}
""",rule="C20.R8")
V("C24-pooled-payload-hasher","C24",PVL,"""			t.hash = sha256.New()""","""			t.hash = pooledSHA256()""",rule="C24.R9",more=[{"file":PVL,"old":"func (t *validatingTarget) Close() (oid.ID, error) {","new":"var sha256Pool = sync.Pool{New: func() any { return sha256.New() }}\n\nfunc pooledSHA256() hash.Hash { return sha256Pool.Get().(hash.Hash) }\n\nfunc (t *validatingTarget) Close() (oid.ID, error) {"},{"file":PVL,"old":'	"hash"\n',"new":'	"hash"\n	"sync"\n'}])
V("C24-pooled-payload-hasher-reset","C24",PVL,"""			t.hash = sha256.New()""","""			t.hash = pooledSHA256()""",expect="silent",more=[{"file":PVL,"old":"func (t *validatingTarget) Close() (oid.ID, error) {","new":"var sha256Pool = sync.Pool{New: func() any { return sha256.New() }}\n\nfunc pooledSHA256() hash.Hash {\n	h := sha256Pool.Get().(hash.Hash)\n	h.Reset()\n	return h\n}\n\nfunc (t *validatingTarget) Close() (oid.ID, error) {"},{"file":PVL,"old":'	"hash"\n',"new":'	"hash"\n	"sync"\n'}])
V("C26-keeper-chosen-before-holder-test","C26",EDL,"""		if !slices.Contains(shardIDs, id) {
			continue
		}

		if keeperShard == "" {
			keeperShard = id
			continue
		}
""","""		if keeperShard == "" {
			keeperShard = id
			continue
		}

		if !slices.Contains(shardIDs, id) {
			continue
		}
""",rule="C26.R8")
V("C36-next-list-from-remembered-proposal","C36",GPU,"""	newAlphabet, err := newAlphabetList(fsChainAlphabet, mainnetAlphabet)""","""	if gp.lastProposal != nil {
		fsChainAlphabet = gp.lastProposal
	}
	newAlphabet, err := newAlphabetList(fsChainAlphabet, mainnetAlphabet)
	gp.lastProposal = newAlphabet""",rule="C36.R6",more=[{"file":"pkg/innerring/processors/governance/processor.go","old":"	// Processor of events related to governance in the network.\n	Processor struct {","new":"	// Processor of events related to governance in the network.\n	Processor struct {\n		lastProposal keys.PublicKeys"}])
V("C39-cheque-rounded-to-nearest","C39",BPA,"""bp.converter.ToFixed8(lock.Amount())""","""bp.converter.ToFixed8(lock.Amount()+5000)""",rule="C39.R5")
V("C44-orphan-mark-never-removed","C44",MMD,"""	haveObject := bytes.Equal(k, pref)

	if haveObject {""","""	haveObject := bytes.Equal(k, pref)
	if !haveObject {
		return diff, errNonPhy
	}

	if haveObject {""",rule="C44.R7")
ICC="pkg/innerring/processors/container/common.go"
V("C37-v1-data-signature-not-checked","C37",ICC,"""		if !tok.VerifySessionDataSignature(v.signedData, v.invocScript) {
			return errors.New("invalid signature calculated with session key")
		}
""","",rule="C37.R6")
V("C37-v2-request-bound-to-subject-repaired","C37",ICC,"""	currentTime := cp.chainTime.Now().Round(time.Second)
	if !tok.ValidAt(currentTime) {""","""	signer, err := signerOfVerificationScript(v.verifScript)
	if err != nil {
		return err
	}
	if ok, err := tok.AssertAuthority(signer, cp.resolver); err != nil || !ok {
		return errors.New("request signer is not a subject of the token")
	}
	if err := icrypto.AuthenticateContainerRequest(signer, v.invocScript, v.verifScript, v.signedData, cp.cnrClient.Morph()); err != nil {
		return fmt.Errorf("authenticate request of the session subject: %w", err)
	}

	currentTime := cp.chainTime.Now().Round(time.Second)
	if !tok.ValidAt(currentTime) {""",expect="silent",more=[{"file":ICC,"old":"// verifySessionV2 validates V2 session token for container operations.","new":"func signerOfVerificationScript(script []byte) (user.ID, error) {\n	pub, err := keys.NewPublicKeyFromBytes(script, elliptic.P256())\n	if err != nil {\n		return user.NewFromScriptHash(hash.Hash160(script)), nil\n	}\n	return user.NewFromECDSAPublicKey(ecdsa.PublicKey(*pub)), nil\n}\n\n// verifySessionV2 validates V2 session token for container operations."},{"file":ICC,"old":"import (\n","new":"import (\n	\"crypto/ecdsa\"\n	\"crypto/elliptic\"\n\n	\"github.com/nspcc-dev/neo-go/pkg/crypto/hash\"\n	\"github.com/nspcc-dev/neo-go/pkg/crypto/keys\"\n"}])
V("C28-revert-fix-binary-recheck-without-request","C28","pkg/services/object/acl/acl.go","""		// the header was read for the request being processed
		if req, ok := reqInfo.SrcRequest.(eaclV2.Request); ok {
			hdrSrcOpts = append(hdrSrcOpts, eaclV2.WithRequestXHeaders(req))
		}
""","",rule="C28.R7")
WFL="pkg/local_object_storage/writecache/flush.go"
V("C17-revert-fix-batches-lag-by-one","C17",WFL,"""					if handledAddr {
						b = sortedAddrs[i+1 : i+1]
					} else {
						b = sortedAddrs[i:i]
					}""","""					b = sortedAddrs[i:i]""",rule="C17.R8")
V("C17-batch-rebase-always-next","C17",WFL,"""					if handledAddr {
						b = sortedAddrs[i+1 : i+1]
					} else {
						b = sortedAddrs[i:i]
					}""","""					b = sortedAddrs[i+1 : i+1]""",rule="C17.R8")
V("C17-batch-rebase-inverted-test","C17",WFL,"""					if handledAddr {
						b = sortedAddrs[i+1 : i+1]
					} else {
						b = sortedAddrs[i:i]
					}""","""					if !handledAddr {
						b = sortedAddrs[i:i]
					} else {
						b = sortedAddrs[i+1 : i+1]
					}""",expect="silent")

# ---- rules added after batch F
EIN="pkg/local_object_storage/engine/inhume.go"; MGY="pkg/local_object_storage/metabase/graveyard.go"; MEX="pkg/local_object_storage/metabase/exists.go"; FRW="pkg/local_object_storage/blobstor/fstree/rewrite_compressed_linux.go"
V("C06-container-removal-stops-at-refusing-shard","C06",EIN,"""			e.log.Warn("inhuming container",
				zap.Stringer("cid", cID),
				zap.Stringer("shard", sh.ID()),
				zap.Error(err))
		}""","""			e.log.Warn("inhuming container",
				zap.Stringer("cid", cID),
				zap.Stringer("shard", sh.ID()),
				zap.Error(err))

			return err
		}""",rule="C06.R6")
V("C09-lister-skips-marks-without-index-record","C09",MGY,"""		if !isNonPhysicalEntry(lookup, obj) {
			removable++
		}
		objs = append(objs, obj)""","""		if k, _ := lookup.Seek(slices.Concat([]byte{metaPrefixID}, obj[:])); !bytes.HasPrefix(k, obj[:1]) && len(k) == 0 {
			continue
		}
		if !isNonPhysicalEntry(lookup, obj) {
			removable++
		}
		objs = append(objs, obj)""",rule="C09.R8")
V("C44-lister-skips-marks-without-index-record","C44",MGY,"""		if !isNonPhysicalEntry(lookup, obj) {
			removable++
		}
		objs = append(objs, obj)""","""		if k, _ := lookup.Seek(slices.Concat([]byte{metaPrefixID}, obj[:])); !bytes.HasPrefix(k, obj[:1]) && len(k) == 0 {
			continue
		}
		if !isNonPhysicalEntry(lookup, obj) {
			removable++
		}
		objs = append(objs, obj)""",rule="C44.R8")
V("C19-marked-id-reported-absent","C19",MEX,"""	case statusGCMarked:
		return false, logicerr.Wrap(fmt.Errorf("%w: %w", apistatus.ObjectNotFound{}, errors.New("object marked as garbage")))""","""	case statusGCMarked:
		if _, typErr := fetchTypeForID(metaCursor, id); typErr != nil {
			return false, nil
		}
		return false, logicerr.Wrap(fmt.Errorf("%w: %w", apistatus.ObjectNotFound{}, errors.New("object marked as garbage")))""",rule="C19.R8")
V("C12-rewrite-names-the-file-before-writing","C12",FRW,"""	n, err := f.Write(data)
	if err != nil {
		return fmt.Errorf("write unnamed temporary object file: %w", err)
	}
	if n != len(data) {
		return fmt.Errorf("write unnamed temporary object file: %w", io.ErrShortWrite)
	}""","""	earlyLink := path + ".rewrite-compressed"
	if err = unix.Linkat(unix.AT_FDCWD, "/proc/self/fd/"+strconv.Itoa(fd), unix.AT_FDCWD, earlyLink, unix.AT_SYMLINK_FOLLOW); err != nil && !errors.Is(err, unix.EEXIST) {
		return fmt.Errorf("link unnamed temporary object file: %w", err)
	}
	n, err := f.Write(data)
	if err != nil {
		return fmt.Errorf("write unnamed temporary object file: %w", err)
	}
	if n != len(data) {
		return fmt.Errorf("write unnamed temporary object file: %w", io.ErrShortWrite)
	}""",rule="C12.R1")
V("C12-rewrite-tolerates-existing-link","C12",FRW,"""	if err = unix.Linkat(unix.AT_FDCWD, procPath, unix.AT_FDCWD, linkPath, unix.AT_SYMLINK_FOLLOW); err != nil {
		return fmt.Errorf("link unnamed temporary object file: %w", err)
	}""","""	if err = unix.Linkat(unix.AT_FDCWD, procPath, unix.AT_FDCWD, linkPath, unix.AT_SYMLINK_FOLLOW); err != nil && !errors.Is(err, unix.EEXIST) {
		return fmt.Errorf("link unnamed temporary object file: %w", err)
	}""",rule="C12.R1")
V("C17-revert-fix-abandoned-round-keeps-current-mark","C17",WFL,"""						if !handledAddr {
							// already marked, but not in the batch yet
							c.flushObjs.Delete(addr)
						}
""","",rule="C17.R4")

# ---- rules added after batch G
PRM="pkg/services/object/put/remote.go"; PLS="pkg/services/object/placement/service.go"; PLC="pkg/services/object/put/local.go"; IPC="pkg/innerring/processors/container/process_container.go"; BCS="pkg/local_object_storage/blobstor/common/storage.go"
V("C11-zero-length-from-any-offset-is-full","C11",BCS,"""		return r.First == 0 && r.Second == 0""","""		return r.Second == 0""",rule="C11.R8")
V("C27-cache-keeps-unsorted-vectors","C27",PLS,"""	res.Placement = p
	res.NodeSets, res.err = s.sortContainerNodesFunc(*networkMap, p.NodeSets, obj)
	if res.err != nil {
		res.err = fmt.Errorf("sort container nodes for object: %w", res.err)
	}
	s.objCache.Add(cacheKey, res)
	return res.NodeSets, res.err""","""	res.Placement = p
	sorted, err := s.sortContainerNodesFunc(*networkMap, p.NodeSets, obj)
	if err != nil {
		res.err = fmt.Errorf("sort container nodes for object: %w", err)
	}
	s.objCache.Add(cacheKey, res)
	return sorted, res.err""",rule="C27.R6")
V("C34-attached-eacl-of-any-container","C34",IPC,"""		if id != table.GetCID() {
			cp.log.Error("additional eACL table in container put request has different container",
				zap.Stringer("cid", id), zap.Stringer("cidInEACL", table.GetCID()))
			return
		}
""","""		if id != table.GetCID() {
			cp.log.Warn("additional eACL table in container put request has different container",
				zap.Stringer("cid", id), zap.Stringer("cidInEACL", table.GetCID()))
		}
""",rule="C34.R6")
V("C25-remote-write-error-left-to-close","C25",PRM,"""	_, err = w.Write(obj.Payload())
	if err != nil {
		return fmt.Errorf("could not put object to %s: write object payload into stream: %w", addressLogString(nodeInfo), err)
	}
""","""	_, _ = w.Write(obj.Payload())
""",rule="C25.R9")
# ---- round 5
V("C36-kept-key-skips-comparison","C36",GL,"""	for i := range innerRing {
		for j := range before {""","""	for i := range innerRing {
		if after.Contains(innerRing[i]) {
			result = append(result, innerRing[i])
			continue
		}
		for j := range before {""",rule="C36.R4")
V("C36-comparison-loop-by-index","C36",GL,"""		for j := range before {
			if innerRing[i].Equal(before[j]) {""","""		for j := 0; j < lnBefore; j++ {
			if innerRing[i].Equal(before[j]) {""",expect="silent")
V("C16-batch-delete-ranges-over-addresses","C16",WC+"flush.go","""	for addr := range objs {
		storagelog.Write(c.log,""","""	for _, addr := range addrs {
		storagelog.Write(c.log,""",rule="C16.R6")
V("C16-batch-delete-keys-with-values","C16",WC+"flush.go","""	for addr := range objs {
		storagelog.Write(c.log,""","""	for addr, data := range objs {
		_ = data
		storagelog.Write(c.log,""",expect="silent")
V("C29-payload-only-skips-recheck","C29","pkg/services/object/get.go","""	var sent bool
	x.onceHdr.Do(func() {""","""	if x.suppressInit {
		return false, nil
	}

	var sent bool
	x.onceHdr.Do(func() {""",rule="C29.R8")
V("C29-scan-error-wrapped","C29","pkg/services/object/get.go","""	err := protoscan.ScanMessage(buffers, protoscan.ObjectGetResponseInitScheme, opts)
	if err != nil {
		return false, err
	}""","""	err := protoscan.ScanMessage(buffers, protoscan.ObjectGetResponseInitScheme, opts)
	if err != nil {
		return false, fmt.Errorf("scan heading part: %w", err)
	}""",expect="silent")
V("C10-window-moved-to-buffer-end","C10",FH,"				n = copy(buf, buf[offset:n])","				n = copy(buf, buf[offset:])",rule="C10.R6")
V("C10-refill-moved-to-buffer-end","C10",FH,"			n = copy(buf, buf[min(offset, n):n])","			n = copy(buf, buf[min(offset, n):])",rule="C10.R6")
V("C10-window-moved-named-bounds","C10",FH,"				n = copy(buf, buf[offset:n])","""				rest := buf[offset:n]
				n = copy(buf, rest)""",expect="silent")
V("C05-hand-rolled-word-parser","C05",S2,"""		v, err := strconv.ParseUint(digits, 10, 64)
		if err == nil {""","""		var v uint64
		var err error
		for i := range digits {
			d := v*10 + uint64(digits[i]-'0')
			if d < v {
				_, err = strconv.ParseUint(digits, 10, 64)
				break
			}
			v = d
		}
		if err == nil {""",rule="C05.R8")
