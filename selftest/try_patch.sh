#!/bin/bash
# usage: try_patch.sh <patch.diff> <prop[,prop...]>  — applies the patch to /repo, runs the checks, reverts.
set -u
P="$1"; PROPS="$2"
cd /repo || exit 2
git apply --check "$P" || { echo "patch does not apply"; exit 2; }
git apply "$P"
/verif/check.sh "$PROPS" quick 2>&1 | grep -v "^    discharged" | cut -c1-400
git -C /repo checkout -- . 
git -C /repo status --short | head -3
