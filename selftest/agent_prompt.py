#!/usr/bin/env python3
"""prints the prompt for a mutation-seeding sub-agent: agent_prompt.py <prop-id> <worktree> [hint]"""
import json,sys
pid,wt=sys.argv[1],sys.argv[2]
extra=sys.argv[3] if len(sys.argv)>3 else ""
p=[json.loads(l) for l in open('/verif/properties.jsonl') if json.loads(l)['id']==pid][0]
print(f"""You are helping test a verification effort for the Go project nspcc-dev/neofs-node (NeoFS storage / inner-ring node).
Your own scratch git worktree of the repository is at {wt} (already created; work ONLY there; never touch /repo or /verif; never run `git stash`, never `git worktree` commands, never commit).

Environment for every shell command (env does not persist between calls):
  export PATH=/opt/veriftools/go1.26.8/bin:$PATH GOTOOLCHAIN=local GOFLAGS=-mod=mod GOPROXY=off GOSUMDB=off GOWORK=off
There is no network. The first `go test` of a package compiles for ~1-3 minutes; later runs are cached. Run tests only for the packages you touch (plus their direct dependants if cheap), never the whole suite.
Note: the sandbox runs as root, so a few existing tests that rely on chmod-based permission errors (TestShardOpen, TestDumpIgnoreErrors, TestExists in shard; TestInitializationFailure, TestErrorReporting in engine) fail on the UNCHANGED tree too - ignore exactly those.

The property (it must hold for every input / history / schedule / crash point, not only the cases tests sample):

{json.dumps(p,indent=1)}

TASK. Produce ONE realistic change to the repository's non-test Go source that BREAKS this property while (a) the whole repository still compiles (`go build ./...` and `go vet` of the touched packages), and (b) every EXISTING test of the touched packages still passes (apart from the root-only failures named above). The change must look like something a developer could plausibly commit (a refactor slip, an optimisation, an off-by-one, a moved statement, an early return, a dropped or weakened check, a cache, a wrong branch) - not sabotage with an obvious marker, and no comments that give it away. It must need something SPECIFIC to manifest: a particular interleaving, a crash or fault at a particular point, a multi-step sequence of operations, an unusual input, or two cooperating sites that each look fine alone - NOT something ordinary use would expose at once. Keep it small (ideally < 40 changed lines, one or two files). {extra}

DELIVERABLES (all inside {wt}/_seed/, create the directory):
 1. patch.diff   - `git diff` of ONLY the non-test source change (must apply with `git apply` on a clean checkout of the same commit). Do not include the demonstration in it.
 2. a demonstration: one or more new `_test.go` files (copy them into _seed/ as well, named with the package path flattened, and say in meta where each belongs) or a small program, which FAILS with the change applied and PASSES without it. Verify both directions yourself.
 3. meta.agent.json with keys: "property" (the id), "summary" (what was changed and why it breaks the property), "needs" (what exactly it needs to manifest), "files" (changed files), "demo" (where the demo files go and the exact `go test` command), "verified" (what you ran with and without the change and what you saw).
When finished leave the worktree with the change APPLIED and the demo test files in place, and reply with a short report (summary, needs, commands run, results). Do not spend more than about 40 minutes.""")
