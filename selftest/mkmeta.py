#!/usr/bin/env python3
"""mkmeta.py <seed-dir>...: builds seeded/<dir>/meta.json from meta.agent.json + confirm.log (keeps existing check results)."""
import json,os,sys
for n in sys.argv[1:]:
    d=os.path.join('/verif/seeded',n); a=os.path.join(d,'meta.agent.json')
    m=json.load(open(a)) if os.path.exists(a) else {}
    mp=os.path.join(d,'meta.json'); old=json.load(open(mp)) if os.path.exists(mp) else {}
    conf=open(os.path.join(d,'confirm.log')).read() if os.path.exists(os.path.join(d,'confirm.log')) else None
    out={"property_id":n.split('-')[0],"breaks":m.get("summary") or m.get("description"),"needs_to_manifest":m.get("needs"),"files_changed":m.get("files"),
         "demonstration":m.get("demo"),"agent_verified":m.get("verified"),
         "confirmed_by_me":("selftest/confirm_seed.sh in a fresh scratch worktree of /repo HEAD (removed afterwards): demo passes without the change; with it the repository builds, the demo fails and the touched packages' other tests pass. Log:\n"+conf) if conf else old.get("confirmed") or old.get("confirmed_by_me")}
    for k in ("checks_run","caught","fired_properties","violated_obligations"):
        if k in old: out[k]=old[k]
    json.dump(out,open(mp,'w'),indent=1); open(mp,'a').write("\n"); print("meta",n)
