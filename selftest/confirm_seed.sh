#!/bin/bash
# usage: confirm_seed.sh <seed-dir-name> <agent-worktree> <run-regex> <pkg> [pkg...]
# Confirms an agent's seeded change in a fresh scratch worktree of /repo HEAD:
#   demo passes without the change; with the change: repo builds, demo FAILS, the packages' other tests pass.
# On success copies patch + demo + agent meta into /verif/seeded/<name>/ and writes confirm.log there.
set -u
NAME="$1"; AG="$2"; RX="$3"; shift 3; PKGS="$*"
export PATH=/opt/veriftools/go1.26.8/bin:$PATH GOTOOLCHAIN=local GOFLAGS=-mod=mod GOPROXY=off GOSUMDB=off GOWORK=off
WT=/tmp/cf-$NAME; OUT=/verif/seeded/$NAME; LOG=/tmp/cf-$NAME.log
ROOTONLY='TestShardOpen|TestDumpIgnoreErrors|TestExists|TestInitializationFailure|TestErrorReporting|TestFlush/ignore_errors'
rm -rf "$WT"; git -C /repo worktree prune
git -C /repo worktree add --detach -q "$WT" HEAD || exit 2
cleanup(){ git -C /repo worktree remove --force "$WT" 2>/dev/null; rm -rf "$WT"; }
trap cleanup EXIT
: > "$LOG"
# demo files = untracked *_test.go (or other) files of the agent worktree outside _seed
( cd "$AG" && git status --porcelain | awk '$1=="??"{print $2}' | grep -v '^_seed' ) > /tmp/cf-$NAME.files
while read -r f; do [ -d "$AG/$f" ] && continue; mkdir -p "$WT/$(dirname "$f")"; cp "$AG/$f" "$WT/$f"; done < /tmp/cf-$NAME.files
echo "demo files: $(tr '\n' ' ' < /tmp/cf-$NAME.files)" | tee -a "$LOG"
cd "$WT"
echo "== 1. demo WITHOUT the change (must pass): go test $PKGS -run '$RX'" | tee -a "$LOG"
go test $PKGS -run "$RX" -count=1 >> "$LOG" 2>&1; R1=$?
echo "exit=$R1" | tee -a "$LOG"
git apply "$AG/_seed/patch.diff" >> "$LOG" 2>&1 || { echo "PATCH DOES NOT APPLY" | tee -a "$LOG"; exit 1; }
echo "== 2. go build ./... WITH the change" | tee -a "$LOG"
go build ./... >> "$LOG" 2>&1; RB=$?
echo "exit=$RB" | tee -a "$LOG"
echo "== 3. demo WITH the change (must fail)" | tee -a "$LOG"
go test $PKGS -run "$RX" -count=1 >> "$LOG" 2>&1; R2=$?
echo "exit=$R2" | tee -a "$LOG"
echo "== 4. existing tests of the packages WITH the change (demo and root-only tests skipped; must pass)" | tee -a "$LOG"
go test $PKGS -skip "$RX|$ROOTONLY" -count=1 >> "$LOG" 2>&1; R3=$?
echo "exit=$R3" | tee -a "$LOG"
if [ $R1 -eq 0 ] && [ $RB -eq 0 ] && [ $R2 -ne 0 ] && [ $R3 -eq 0 ]; then
  mkdir -p "$OUT"; cp "$AG/_seed/patch.diff" "$OUT/patch.diff"; cp "$AG/_seed/meta.agent.json" "$OUT/" 2>/dev/null
  while read -r f; do [ -d "$AG/$f" ] && continue; cp "$AG/$f" "$OUT/$(echo "$f" | tr '/' '_')"; done < /tmp/cf-$NAME.files
  grep -E "^(==|exit=|demo files|--- FAIL|FAIL|ok )" "$LOG" | head -60 > "$OUT/confirm.log"
  echo "CONFIRMED $NAME"
else
  echo "NOT CONFIRMED $NAME (see $LOG)"; tail -30 "$LOG"
fi
