#!/bin/bash
# runs the whole test suite of /repo HEAD in a scratch worktree and compares failing tests with the stable_pass list
export PATH=/opt/veriftools/go1.26.8/bin:$PATH GOTOOLCHAIN=local GOFLAGS=-mod=mod GOPROXY=off GOSUMDB=off GOWORK=off
WT=/tmp/bl-wt; rm -rf $WT; git -C /repo worktree prune; git -C /repo worktree add --detach -q $WT HEAD
cd $WT && go test -json -vet=off -count=1 -timeout 25m ./... > /tmp/bl.json 2>/tmp/bl.err
python3 - <<'PY'
import json
st=set(json.load(open('/root/.vp/BASELINE.json'))['stable_pass'])
res={}
for l in open('/tmp/bl.json'):
    try: e=json.loads(l)
    except: continue
    if e.get('Action') in ('pass','fail') and e.get('Test'):
        res[e['Package']+'::'+e['Test']]=e['Action']
bad=[k for k in st if res.get(k)!='pass']
print('stable_pass tests:',len(st),'not passing now:',len(bad))
for k in sorted(bad)[:40]: print('  ',k,res.get(k))
PY
git -C /repo worktree remove --force $WT
