#!/usr/bin/env python3
"""Regenerates the generated blocks of DESIGN.md (rules as built, seeded-change matrix, findings) from
evidence/*.json, seeded/*/meta.json and known_findings.json."""
import json,os,re,glob
V='/verif'
def rules_block():
    out=["| property | rule | instances (floor) | what the rule requires |","|---|---|---|---|"]
    for f in sorted(glob.glob(V+'/evidence/C*.json')):
        if f.endswith('.violation.json'): continue
        e=json.load(open(f)); pid=e['property_id']
        for r in e['coverage'].get('rules',[]):
            out.append(f"| {pid} | {r['id']} | {r['count']} ({r['floor']}) | {r['text'].replace('|','/')} |")
    return "\n".join(out)
def seeded_block():
    out=["| seeded change | breaks | what it needs to manifest (short) | caught by (violated obligations) |","|---|---|---|---|"]
    for d in sorted(os.listdir(V+'/seeded')):
        mp=os.path.join(V,'seeded',d,'meta.json')
        if not os.path.exists(mp): continue
        m=json.load(open(mp))
        needs=str(m.get('needs_to_manifest') or '')
        needs=re.sub(r'\s+',' ',needs)[:230]
        fired=m.get('fired_properties',[]); viol=m.get('violated_obligations',[])
        rules=sorted(set(v.split()[0] for v in viol))
        caught=("**caught**: "+", ".join(rules)) if m.get('caught') else ("missed" if 'caught' in m else "not run")
        if m.get('skip_in_matrix'): caught+=" — on the base it was written for; obsolete on the current tree (the later fix made the mutation behaviour-preserving, see meta.json)"
        if fired and set(fired)-{m.get('property_id')}: caught+=f" (also fires {', '.join(sorted(set(fired)-{m.get('property_id')}))})"
        out.append(f"| seeded/{d} | {m.get('property_id')} | {needs.replace('|','/')} | {caught} |")
    return "\n".join(out)
def findings_block():
    d=json.load(open(V+'/known_findings.json'))
    out=["| status | property | rule | construct | commit | what failed |","|---|---|---|---|---|---|"]
    for f in d['findings']:
        what=re.sub(r"\s+"," ",f['what'])[:400].replace('|','/')
        out.append(f"| {f['status']} | {f['property']} | {f['rule']} | `{f['construct']}` | {f.get('commit','')} | {what} |")
    return "\n".join(out)
blocks={'RULES':rules_block(),'SEEDED':seeded_block(),'FINDINGS':findings_block()}
p=V+'/DESIGN.md'; s=open(p).read()
for k,v in blocks.items():
    b,e=f"<!-- BEGIN GENERATED:{k} -->",f"<!-- END GENERATED:{k} -->"
    if b in s:
        s=s[:s.index(b)+len(b)]+"\n"+v+"\n"+s[s.index(e):]
    else:
        print("marker missing:",k)
open(p,'w').write(s)
print("ok")
