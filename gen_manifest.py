#!/usr/bin/env python3
# Generates MANIFEST.json from the table below. Edit CLAIMED / NA, run, commit.
import json
ENV="PATH=/opt/veriftools/go1.26.8/bin:$PATH GOTOOLCHAIN=local GOFLAGS=-mod=mod GOPROXY=off GOSUMDB=off GOWORK=off"
# id -> (level, level text, level_note, technique)
CLAIMED={
"C32":("proof","For every control RPC handler (enumerated from the generated interfaces) every effect is shown, on all CFG paths, to be dominated by a successful isValidRequest on the handler's own request; isValidRequest's nil return is shown to require key match and signature verification over the signed body.",
  "trusted: go/types, go/ssa, the dataflow engine, SDK signature verification, gRPC dispatch",
  "static analysis: must-dataflow (guard dominance) over go/ssa CFGs of handlers enumerated from the service interface"),
}

T_GUARD="static analysis: must-dataflow of passed guards over go/ssa CFGs (guard dominance / must-pass-through), handlers enumerated from the generated service interfaces"
def other(text): return ("other",text,"structural necessary condition decided for all paths of the current program; trusted: go/types, go/ssa, the engines and rule tables under /verif/analyzer; the behavioural remainder named in evidence.coverage.explanation is not decided")
CLAIMED.update({
"C29":("proof","For every object RPC entry point every object-data effect is shown on all CFG paths to be dominated by signature, token, request-info, basic-ACL(+sticky) and eACL guards; the deferred header eACL re-check is shown to precede every send/return wherever its flag is consulted.","trusted: go/types, go/ssa, the dataflow engine, the effect table and status-wrapper cut list, guard semantics (SDK / acl package), gRPC dispatch",T_GUARD),
"C31":("proof","The single storing call in Server.Replicate is shown to be dominated by signature verification over the request's own fields, server and client container-membership (flag provenance checked) and decoding; the adapter delegates to full validation.","trusted: go/types, go/ssa, the dataflow engine, FS-chain adapter iteration, SDK crypto",T_GUARD),
"C45":("proof","For every client object RPC entry point every storage/network effect is shown on all CFG paths to be dominated by LocalNodeUnderMaintenance()==false; the maintenance outcome answers with ErrNodeUnderMaintenance; Replicate is not refused.","trusted: go/types, go/ssa, the dataflow engine, the effect table",T_GUARD),
"C33":other("Structural half only: exemption predicate shape, wrapper success conditions, and signature verification dominating every call through server state in every registered gRPC service method.")+(T_GUARD+"; service set derived from Register*ServiceServer call sites",),
"C34":other("Preparator success requires the four transaction validators and the allowed-event lookup; parser slot writers and the multi-call parser table; multi-call parsers check contract and method of later calls before using them; every processor co-signature site is dominated by the alphabet test and its own check.")+(T_GUARD.replace("handlers enumerated from the generated service interfaces","sites enumerated from call sites of NotarySignAndInvokeTX / SetParser")+"; field-writer and registration tables",),
"C35":other("Structural half: every call of a derived alphabet-authority sink inside pkg/innerring is guarded by alphabet membership locally or on every caller chain; soundness of the guard chain (indexer, -1 on error, keyPosition).")+("static analysis: guard-dominance dataflow lifted over the static call graph (caller-chain search) + must-pass-through on the indexer",),
"C37":other("Container processor: approvals dominated by alphabet test and check result; check functions' success conditions; sibling agreement of the V1/V2 token branches on obligation classes; verb constant agreement per operation.")+(T_GUARD.replace("handlers enumerated from the generated service interfaces","process/check/approve triples of the container processor")+"; sibling agreement of obligation classes",),
"C38":other("Admission co-signature dominated by alphabet, script validity, node-info parsing and validator acceptance; composite validator loop shape; epoch tick value and guard; NewEpoch caller table.")+("static analysis: guard-dominance dataflow + loop-shape check + SSA value-shape check + who-may-call on go/ssa",),
"C40":other("Per-call structure of the epoch timers: guard dominance of handler calls, done=true post-dominance, flag writer sets, lock span, sub-epoch handlers examined on every non-done call.")+("static analysis: guard-dominance dataflow + must-follow (post-dominance) fixpoint + field-writer table on go/ssa",),
"C46":other("Short-read safety of Restore (no bare Reader.Read with discarded count), Dump/Restore framing agreement, counter advanced only after tolerated Put outcomes.")+("static analysis: API-contract lint bound to the property (with positive fixture) + guard dominance + sibling agreement on go/ssa",),
"C07":other("Lock protection in the metabase status machinery and its GC callers: guard dominance of garbage marks/tombstone counting by objectLocked==false and not-a-LOCK, of non-available statuses and expiry yields by objectLocked==false; live-lock lookup shape; engine expired-object deletion after the lock check; caller table of physical deletion.")+(T_GUARD.replace("handlers enumerated from the generated service interfaces","metabase/shard/engine anchors resolved by type identity")+"; who-may-call table",),
"C12":other("Publish-after-complete-write discipline of both file-tree writers: the link/rename that exposes the final name is dominated by a successful full-length write; the final path never reaches a file-creating call; temporary-name separator agreement; only EEXIST tolerated.")+("static analysis: guard-dominance dataflow + value-flow check of the final-path parameter + constant agreement on go/ssa",),
"C13":other("Path-sensitive enumeration of all control-flow paths of the writers: verified helper summaries, lock balance at every exit, at most one batch finalization per path, success only on fault-free paths, sticky batch error.")+("static analysis: path-sensitive typestate/lock-balance enumeration over go/ssa CFG paths with verified callee summaries (no solver)",),
"C14":other("Every component-mutating call in the shard package is dominated by a writable-mode test (mutators derived from bbolt write transactions); every bbolt write transaction, write-cache mutation and FSTree mutation is dominated by the component's own read-only test; each SetMode stores the mode it reports.")+("static analysis: guard-dominance dataflow with derived mutator sets (call-graph reachability) + must-pass-through on SetMode success returns",),
"C15":other("Order of cross-component steps on every path: metadata after data on put, cache delete after main-storage put on flush, blob delete after metabase delete, cache drop after metabase mark, rollback on metabase failure.")+("static analysis: must-precede (guard-dominance) dataflow on go/ssa",),
"C16":other("Flush-before-delete, flush-before-detach in SetMode, blob-storage fallback on every unjustified return of fetchObjectData, RLock pairing in the flush worker.")+("static analysis: guard-dominance dataflow + must-follow (post-dominance) on go/ssa",),
"C17":other("Sigma-invariant of the write-cache counters by symbolic effect extraction over all acyclic paths; writer table; counters updated exactly on FSTree success; in-flight mark pairing in worker and scheduler abandon path; scheduler never returns except on close.")+("static analysis: symbolic path-effect extraction (Sigma-invariant) + must-follow pairing + field-writer table on go/ssa",),
"C28":other("Shape of the access decision (not the SDK decision tables): eACL consulted only for extendable ACL and non-system roles; the bearer token's table used only where bearer rules are allowed, else the stored table; bearer attached to the request info only after verification against the request; role switches exhaustive; basic-ACL and sticky-bit check shape.")+(T_GUARD.replace("handlers enumerated from the generated service interfaces","anchors in pkg/services/object/acl resolved by type identity")+"; path-sensitive following of the cleared bearer field; switch exhaustiveness over acl.Role constants",),
"C30":other("Must-pass-through on every nil-error return of the three token verifiers (cached common checks plus per-request lifetime/verb/container assertions), cache keys derived from the whole marshalled token, caches purged on new epoch.")+("static analysis: must-pass-through (success-return guard dataflow) over go/ssa CFGs including closures handed to the check cache; value-provenance check of cache keys",),
"C01":other("Every metabase view (classified from the functions opening a read transaction) consults the shared status machinery with the available outcome before yielding; status-to-error mapping identical across views; expiry predicates strict and oriented alike; nested status = max(own, parent); inGarbage lookup shape. The status function's correctness on arbitrary histories is not decided.")+(T_GUARD.replace("handlers enumerated from the generated service interfaces","views enumerated from bbolt read-transaction call sites")+"; view classification table (exhaustiveness); sibling agreement of status switches",),
"C06":other("Status clause and structural half of exactly-once: listing appends only after container-live and not-marked-for-removal tests; nothing else builds listing results; cursor advanced before any skip, next page strictly after the cursor key, object cursor reset only on container change. Exactly-once over key order is not decided.")+("static analysis: guard-dominance dataflow on go/ssa (closures of range-over-func loops included) + who-may-append table",),
"C47":other("Container discard sites are dominated by payments-enabled, payment-check ok, unpaid>=0, no-wrap ordering and grace comparison; not-found classification dominates the other two paths; caller table of discarding entry points.")+("static analysis: guard-dominance dataflow with ordering facts for the unsigned subtraction + who-may-call table on go/ssa",),
})
NA={
"C04":"merge order, dedup and recomputed cursors depend on attribute values; no structural clause whose violation must break the behaviour",
"C10":"byte-for-byte map semantics over operation sequences is a data-value property; no sound static argument in reach",
"C18":"confluence of metadata rebuild over blob orders is semantic; the only structural clause (re-indexing consults removal state) is claimed under C09",
"C21":"Reed-Solomon encode/decode correctness is algebra over payload bytes",
"C22":"permutation/spreading of a modular index sequence is arithmetic over runtime integers (provable by a proof assistant, not by static analysis of the source)",
"C23":"range arithmetic across split/EC boundaries over runtime sizes and byte equality of reassembled payloads",
"C36":"list combinatorics over runtime key values",
"C44":"liveness (eventually) over epochs and batch sizes",
}
PENDING="static check designed in DESIGN.md but not built yet; not claimed until it runs"
ids=[json.loads(l)['id'] for l in open('/verif/properties.jsonl') if l.strip()]
checks=[]
for i in ids:
    if i in CLAIMED:
        lvl,text,note,tech=CLAIMED[i]
        checks.append({"property_id":i,"quick_cmd":f"/verif/check.sh {i} quick","thorough_cmd":f"/verif/check.sh {i} thorough",
          "evidence_file":f"/verif/evidence/{i}.json","replay_cmd_template":"cat {path}","engine":"nfscheck",
          "level_claimed":{"category":lvl,"text":text,"design_ref":f"DESIGN.md section 2, {i}"},"level_note":note,"technique":tech})
na=[{"property_id":i,"reason":NA.get(i,PENDING)} for i in ids if i not in CLAIMED]
m={"version":1,
 "setup_cmd":f"cd /verif/analyzer && {ENV} go build -o /verif/bin/nfscheck ./cmd/nfscheck",
 "hooks":{"guard":"verif","enable":"no hooks: the checks read /repo's source; nothing in /repo is instrumented","baseline_off_cmd":"cd /repo && go build ./... && go test -vet=off -count=1 -timeout 25m ./...","source_commits":[],"add_only":True},
 "engines":[{"name":"nfscheck","path":"/verif/analyzer","serves_properties":sorted(CLAIMED),"kind_free_text":"custom static analyser over go/packages + go/ssa (x/tools v0.50.0): guarded-effect must-dataflow, must-pass-through, who-may-call, lock/typestate pairing, sibling agreement, exhaustiveness; table-driven, one rule file per property"}],
 "checks":checks,"not_applicable":na,
 "notes":"All checks are static: they load /repo's current working tree with go/packages, build go/ssa and decide rule obligations; nothing is executed. Exit 2 (no VIOLATION line) means the checker could not decide (type errors, unresolved anchor)."}
json.dump(m,open('/verif/MANIFEST.json','w'),indent=1)
print(len(checks),'claimed',len(na),'not applicable')
