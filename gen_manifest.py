#!/usr/bin/env python3
# Generates MANIFEST.json from the table below. Edit CLAIMED / NA, run, commit.
import json
ENV="PATH=/opt/veriftools/go1.26.8/bin:$PATH GOTOOLCHAIN=local GOFLAGS=-mod=mod GOPROXY=off GOSUMDB=off GOWORK=off"
# id -> (level, level text, level_note, technique)
CLAIMED={
"C32":("proof","For every control RPC handler (enumerated from the generated interfaces) every effect is shown, on all CFG paths, to be dominated by a successful isValidRequest on the handler's own request; isValidRequest's nil return is shown to require key match and signature verification over the signed body.",
  "trusted: go/types, go/ssa, the dataflow engine, SDK signature verification, gRPC dispatch",
  "static analysis: must-dataflow (guard dominance) over go/ssa CFGs of handlers enumerated from the service interface"),
}
NA={
"C04":"merge order, dedup and recomputed cursors depend on attribute values; no structural clause whose violation must break the behaviour",
"C10":"byte-for-byte map semantics over operation sequences is a data-value property; no sound static argument in reach",
"C18":"confluence of metadata rebuild over blob orders is semantic; the only structural clause (re-indexing consults removal state) is claimed under C09",
"C21":"Reed-Solomon encode/decode correctness is algebra over payload bytes",
"C22":"permutation/spreading of a modular index sequence is arithmetic over runtime integers (provable by a proof assistant, not by static analysis of the source)",
"C23":"range arithmetic across split/EC boundaries over runtime sizes and byte equality of reassembled payloads",
"C36":"list combinatorics over runtime key values",
"C44":"liveness (eventually) over epochs and batch sizes",
}
PENDING="static check designed in DESIGN.md but not built yet; not claimed until it runs"
ids=[json.loads(l)['id'] for l in open('/verif/properties.jsonl') if l.strip()]
checks=[]
for i in ids:
    if i in CLAIMED:
        lvl,text,note,tech=CLAIMED[i]
        checks.append({"property_id":i,"quick_cmd":f"/verif/check.sh {i} quick","thorough_cmd":f"/verif/check.sh {i} thorough",
          "evidence_file":f"/verif/evidence/{i}.json","replay_cmd_template":"cat {path}","engine":"nfscheck",
          "level_claimed":{"category":lvl,"text":text,"design_ref":f"DESIGN.md section 2, {i}"},"level_note":note,"technique":tech})
na=[{"property_id":i,"reason":NA.get(i,PENDING)} for i in ids if i not in CLAIMED]
m={"version":1,
 "setup_cmd":f"cd /verif/analyzer && {ENV} go build -o /verif/bin/nfscheck ./cmd/nfscheck",
 "hooks":{"guard":"verif","enable":"no hooks: the checks read /repo's source; nothing in /repo is instrumented","baseline_off_cmd":"cd /repo && go build ./... && go test -vet=off -count=1 -timeout 25m ./...","source_commits":[],"add_only":True},
 "engines":[{"name":"nfscheck","path":"/verif/analyzer","serves_properties":sorted(CLAIMED),"kind_free_text":"custom static analyser over go/packages + go/ssa (x/tools v0.50.0): guarded-effect must-dataflow, must-pass-through, who-may-call, lock/typestate pairing, sibling agreement, exhaustiveness; table-driven, one rule file per property"}],
 "checks":checks,"not_applicable":na,
 "notes":"All checks are static: they load /repo's current working tree with go/packages, build go/ssa and decide rule obligations; nothing is executed. Exit 2 (no VIOLATION line) means the checker could not decide (type errors, unresolved anchor)."}
json.dump(m,open('/verif/MANIFEST.json','w'),indent=1)
print(len(checks),'claimed',len(na),'not applicable')
