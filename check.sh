#!/bin/bash
# usage: check.sh <property-id|all> [quick|thorough]
# Static check of one property against /repo's current working tree. See DESIGN.md.
set -u
HERE="$(cd "$(dirname "$0")" && pwd)"
export PATH=/opt/veriftools/go1.26.8/bin:$PATH
export GOTOOLCHAIN=local GOFLAGS=-mod=mod GOPROXY=off GOSUMDB=off GOWORK=off
unset GOOS GOARCH
PROP="${1:?property id}"
TIER="${2:-${VERIF_TIER:-quick}}"
ROOT="${VERIF_REPO:-/repo}"
mkdir -p "$HERE/bin" "$HERE/evidence"
# (re)build the checker if any of its sources is newer than the binary
if [ ! -x "$HERE/bin/nfscheck" ] || [ -n "$(find "$HERE/analyzer" -name '*.go' -newer "$HERE/bin/nfscheck" -print -quit)" ]; then
  (cd "$HERE/analyzer" && go build -o "$HERE/bin/nfscheck" ./cmd/nfscheck) || { echo "FATAL: cannot build checker"; exit 2; }
fi
exec "$HERE/bin/nfscheck" -prop "$PROP" -tier "$TIER" -root "$ROOT" -evidence "$HERE/evidence" -known "$HERE/known_findings.json"
