#!/usr/bin/env python3
# validates MANIFEST.json and all evidence files against the schemas (run with python3-vt)
import json,sys,glob
import jsonschema
ms=json.load(open('/root/.vp/MANIFEST.schema.json')); es=json.load(open('/root/.vp/EVIDENCE.schema.json'))
m=json.load(open('/verif/MANIFEST.json')); jsonschema.validate(m,ms)
ids=[l and json.loads(l)['id'] for l in open('/verif/properties.jsonl') if l.strip()]
claimed={c['property_id'] for c in m['checks']}; na={c['property_id'] for c in m.get('not_applicable',[])}
bad=0
for i in ids:
    if (i in claimed)==(i in na): print('property',i,'claimed' if i in claimed else 'missing','/ na' if i in na else ''); bad+= (i in claimed and i in na)
for c in m['checks']:
    try:
        e=json.load(open(c['evidence_file'])); jsonschema.validate(e,es)
        assert e['level']==c['level_claimed']['category'], 'level mismatch '+c['property_id']
    except Exception as x: print('EVIDENCE',c['property_id'],str(x)[:200]); bad+=1
print('ok' if not bad else 'PROBLEMS',len(claimed),'claimed',len(na),'n/a')
sys.exit(1 if bad else 0)
